// vrt: a tiny replacement for the ThreadSanitizer runtime. The query code is compiled by clang with -fsanitize=thread, so that every
// load/store/atomic of the library calls one of the __tsan_* entry points below; this file implements them to
//   (1) classify every access as private (own stack, memory allocated inside the running query) or shared, and keep the set of
//       shared locations written (the "conflict set") together with an undo journal of their old contents, and
//   (2) turn accesses to conflict-set locations, atomics and mutex operations into scheduling points of a serialising,
//       hand-off scheduler (exactly one thread runs at a time; the explorer decides who continues at every point).
// It must NOT be instrumented itself (compiled by g++ without sanitizers).
#include "vrt.hpp"

#include <algorithm>
#include <atomic>
#include <cerrno>
#include <cstdint>
#include <cstdio>
#include <cstdlib>
#include <cstring>
#include <dlfcn.h>
#include <linux/futex.h>
#include <pthread.h>
#include <sys/syscall.h>
#include <unistd.h>
#include <vector>

extern "C" void *__libc_malloc(size_t);
extern "C" void __libc_free(void *);
extern "C" void *__libc_calloc(size_t, size_t);
extern "C" void *__libc_realloc(void *, size_t);
extern "C" void *__libc_memalign(size_t, size_t);

namespace vrt {

void sched_thread_exit(int tid);
static constexpr int MAXT = 8;
struct ThreadState {
    int tid = -1;
    int mon = 0, guard = 0, locks = 0, internal = 0;
    uintptr_t stack_lo = 0, stack_hi = 0;
    struct Range { uintptr_t lo, hi; };
    Range allocs[8192]; int nallocs = 0;
    Stats stats;
    uint64_t call_accesses = 0;
};
static __thread ThreadState *ts = nullptr;
static ThreadState states[MAXT + 1];

// conflict set + undo journal (shared by all threads; only touched by the running thread)
struct Conflict { uintptr_t lo, hi; };
static std::vector<Conflict> *conflicts = nullptr;
struct JournalEntry { uintptr_t addr; size_t size; unsigned char *old; };
static std::vector<JournalEntry> *journal = nullptr;
static std::vector<WriteRecord> *write_records = nullptr;

static void *raw_alloc(size_t n) { return __libc_malloc(n); }

static bool in_conflicts(uintptr_t a, size_t size) {
    if (!conflicts) return false;
    for (auto &c : *conflicts) if (a < c.hi && a + size > c.lo) return true;
    return false;
}
static void add_conflict(uintptr_t a, size_t size) {
    if (!conflicts) conflicts = new (raw_alloc(sizeof(std::vector<Conflict>))) std::vector<Conflict>();
    if (!in_conflicts(a, size) || true) {
        for (auto &c : *conflicts) if (a >= c.lo && a + size <= c.hi) return;
        conflicts->push_back({a, a + size});
    }
}
static bool journaled(uintptr_t a, size_t size) {
    if (!journal) return false;
    for (auto &j : *journal) if (a >= j.addr && a + size <= j.addr + j.size) return true;
    return false;
}
static void journal_old(uintptr_t a, size_t size) {
    if (!journal) journal = new (raw_alloc(sizeof(std::vector<JournalEntry>))) std::vector<JournalEntry>();
    if (journaled(a, size)) return;
    // entries may overlap partially: restoring in reverse order of recording reinstates the oldest bytes last
    unsigned char *old = (unsigned char *) raw_alloc(size);
    for (size_t i = 0; i < size; ++i) old[i] = ((volatile unsigned char *) a)[i];
    journal->push_back({a, size, old});
}

void restore_world() {
    if (!journal) return;
    for (size_t k = journal->size(); k-- > 0;) { auto &j = (*journal)[k]; for (size_t i = 0; i < j.size; ++i) ((volatile unsigned char *) j.addr)[i] = j.old[i]; }
}
size_t conflict_count() { return conflicts ? conflicts->size() : 0; }
const std::vector<WriteRecord> &shared_writes() { static std::vector<WriteRecord> empty; return write_records ? *write_records : empty; }
void clear_conflicts() { if (conflicts) conflicts->clear(); if (write_records) write_records->clear(); }

// ---- scheduler -------------------------------------------------------------------------------------------------------------
struct Sched {
    bool active = false;
    int nthreads = 0;
    int current = -1;
    bool finished[MAXT] = {};
    int sem[MAXT] = {};              // futex words: 1 = may run
    int main_sem = 0;
    const std::vector<int> *prefix = nullptr;   // forced choices (index into the enabled list)
    std::vector<Point> *points = nullptr;
    bool diverged = false;
    bool in_call[MAXT] = {};
};
static Sched S;
static bool aborted_flag[MAXT] = {};
static uint64_t access_budget = 20000000;   // horizon of one monitored call, in instrumented accesses
void set_access_budget(uint64_t b) { access_budget = b; }
bool thread_aborted(int tid) { return tid >= 0 && tid < MAXT && aborted_flag[tid]; }

static void futex_wait(int *w) { while (__atomic_load_n(w, __ATOMIC_ACQUIRE) == 0) syscall(SYS_futex, w, FUTEX_WAIT, 0, nullptr, nullptr, 0); __atomic_store_n(w, 0, __ATOMIC_RELEASE); }
static void futex_post(int *w) { __atomic_store_n(w, 1, __ATOMIC_RELEASE); syscall(SYS_futex, w, FUTEX_WAKE, 1, nullptr, nullptr, 0); }

// decide who runs next; `self` is the calling thread (-1 for the main thread at the start), `self_enabled` false when it just finished
static int decide(int self, bool self_enabled, int kind, uintptr_t addr) {
    Point p; p.kind = kind; p.addr = addr; p.running = self; p.running_enabled = self_enabled; p.n_enabled = 0;
    // canonical order: the running thread first if still enabled, then ascending ids
    if (self >= 0 && self_enabled) p.enabled[p.n_enabled++] = self;
    for (int t = 0; t < S.nthreads; ++t) if (!S.finished[t] && !(t == self && self_enabled)) p.enabled[p.n_enabled++] = t;
    if (p.n_enabled == 0) { p.chosen = -1; S.points->push_back(p); return -1; }
    size_t i = S.points->size();
    int choice = 0;
    if (S.prefix && i < S.prefix->size()) { choice = (*S.prefix)[i]; if (choice >= p.n_enabled) { S.diverged = true; choice = 0; } }
    p.chosen = choice;
    S.points->push_back(p);
    return p.enabled[choice];
}

static void sched_point(int kind, uintptr_t addr) {
    if (!S.active || !ts || ts->tid < 0 || ts->tid >= S.nthreads || ts->internal) return;
    int self = ts->tid;
    ts->internal++;
    int next = decide(self, true, kind, addr);
    ts->internal--;
    if (next != self) { S.current = next; futex_post(&S.sem[next]); futex_wait(&S.sem[self]); }
}

void sched_begin(int nthreads, const std::vector<int> *prefix, std::vector<Point> *points) {
    S.active = true; S.nthreads = nthreads; S.prefix = prefix; S.points = points; S.diverged = false; S.current = -1;
    for (int t = 0; t < MAXT; ++t) { S.finished[t] = false; S.sem[t] = 0; aborted_flag[t] = false; }
    S.main_sem = 0;
}
void sched_start_and_wait() {   // called by the main thread once all workers wait on their semaphores
    int first = decide(-1, false, POINT_START, 0);
    if (first >= 0) { S.current = first; futex_post(&S.sem[first]); futex_wait(&S.main_sem); }
    S.active = false;
}
void sched_thread_enter(int tid) { futex_wait(&S.sem[tid]); }
void sched_thread_exit(int tid) {
    S.finished[tid] = true;
    ts->internal++;
    int next = decide(tid, false, POINT_FINISH, 0);
    ts->internal--;
    if (next >= 0) { S.current = next; futex_post(&S.sem[next]); } else futex_post(&S.main_sem);
}
void sched_call_boundary() { sched_point(POINT_CALL, 0); }
bool sched_diverged() { return S.diverged; }

// ---- thread / monitoring control -----------------------------------------------------------------------------------------
void thread_init(int tid) {
    ts = &states[tid < 0 ? MAXT : tid];
    ts->tid = tid; ts->mon = 0; ts->guard = 0; ts->locks = 0; ts->nallocs = 0; ts->internal = 0;
    pthread_attr_t attr; void *addr = nullptr; size_t size = 0;
    if (pthread_getattr_np(pthread_self(), &attr) == 0) { pthread_attr_getstack(&attr, &addr, &size); pthread_attr_destroy(&attr); }
    ts->stack_lo = (uintptr_t) addr; ts->stack_hi = (uintptr_t) addr + size;
}
void mon_begin() { if (!ts) thread_init(-1); ts->stats = Stats(); ts->nallocs = 0; ts->call_accesses = 0; ts->mon = 1; }
Stats mon_end() { ts->mon = 0; ts->stats.escaped_allocations = ts->nallocs; return ts->stats; }

static inline bool is_private(uintptr_t a, size_t size) {
    if (a >= ts->stack_lo && a + size <= ts->stack_hi) return true;
    for (int i = ts->nallocs - 1; i >= 0; --i) if (a >= ts->allocs[i].lo && a + size <= ts->allocs[i].hi) return true;
    return false;
}
static void add_alloc(void *p, size_t n) { if (ts->nallocs < 8192) ts->allocs[ts->nallocs++] = {(uintptr_t) p, (uintptr_t) p + n}; else ts->stats.alloc_overflow++; }
static void del_alloc(void *p) { for (int i = ts->nallocs - 1; i >= 0; --i) if (ts->allocs[i].lo == (uintptr_t) p) { ts->allocs[i] = ts->allocs[--ts->nallocs]; return; } }

static void on_access(uintptr_t a, size_t size, bool write, void *pc) {
    if (!ts || !ts->mon || ts->internal) return;
    ts->stats.accesses++;
    if (S.active && ts->tid >= 0 && ++ts->call_accesses > access_budget) {
        // explicit horizon: a call that does not return under this schedule (e.g. a loop fed by torn shared state) is cut off here;
        // the explorer reports the missing result as a violation
        ts->mon = 0; aborted_flag[ts->tid] = true;
        sched_thread_exit(ts->tid);
        pthread_exit(nullptr);
    }
    if (is_private(a, size)) return;
    bool conflict = in_conflicts(a, size);
    if (conflict) sched_point(write ? POINT_WRITE : POINT_READ, a);
    if (!write) { ts->stats.shared_reads++; return; }
    ts->internal++;
    if (ts->guard) ts->stats.guarded_init_writes++;
    else {
        if (ts->locks) ts->stats.locked_writes++; else ts->stats.shared_writes++;
        if (!write_records) write_records = new (raw_alloc(sizeof(std::vector<WriteRecord>))) std::vector<WriteRecord>();
        if (write_records->size() < 64) write_records->push_back({a, size, pc, ts->locks > 0});
    }
    add_conflict(a, size);
    journal_old(a, size);
    ts->internal--;
}

}  // namespace vrt

using namespace vrt;

// ---- the __tsan_* interface emitted by clang -fsanitize=thread ---------------------------------------------------------------
#define RA __builtin_return_address(0)
extern "C" {
void __tsan_init() {}
void __tsan_func_entry(void *) {}
void __tsan_func_exit() {}
void __tsan_read1(void *a) { on_access((uintptr_t) a, 1, false, RA); }
void __tsan_read2(void *a) { on_access((uintptr_t) a, 2, false, RA); }
void __tsan_read4(void *a) { on_access((uintptr_t) a, 4, false, RA); }
void __tsan_read8(void *a) { on_access((uintptr_t) a, 8, false, RA); }
void __tsan_read16(void *a) { on_access((uintptr_t) a, 16, false, RA); }
void __tsan_write1(void *a) { on_access((uintptr_t) a, 1, true, RA); }
void __tsan_write2(void *a) { on_access((uintptr_t) a, 2, true, RA); }
void __tsan_write4(void *a) { on_access((uintptr_t) a, 4, true, RA); }
void __tsan_write8(void *a) { on_access((uintptr_t) a, 8, true, RA); }
void __tsan_write16(void *a) { on_access((uintptr_t) a, 16, true, RA); }
void __tsan_unaligned_read2(void *a) { on_access((uintptr_t) a, 2, false, RA); }
void __tsan_unaligned_read4(void *a) { on_access((uintptr_t) a, 4, false, RA); }
void __tsan_unaligned_read8(void *a) { on_access((uintptr_t) a, 8, false, RA); }
void __tsan_unaligned_read16(void *a) { on_access((uintptr_t) a, 16, false, RA); }
void __tsan_unaligned_write2(void *a) { on_access((uintptr_t) a, 2, true, RA); }
void __tsan_unaligned_write4(void *a) { on_access((uintptr_t) a, 4, true, RA); }
void __tsan_unaligned_write8(void *a) { on_access((uintptr_t) a, 8, true, RA); }
void __tsan_unaligned_write16(void *a) { on_access((uintptr_t) a, 16, true, RA); }
void __tsan_read_range(void *a, unsigned long n) { if (n) on_access((uintptr_t) a, n, false, RA); }
void __tsan_write_range(void *a, unsigned long n) { if (n) on_access((uintptr_t) a, n, true, RA); }
void __tsan_vptr_update(void **a, void *) { on_access((uintptr_t) a, 8, true, RA); }
void __tsan_vptr_read(void **a) { on_access((uintptr_t) a, 8, false, RA); }
void __tsan_ignore_thread_begin() {}
void __tsan_ignore_thread_end() {}
void __tsan_volatile_read1(void *a) { on_access((uintptr_t) a, 1, false, RA); }
void __tsan_volatile_read2(void *a) { on_access((uintptr_t) a, 2, false, RA); }
void __tsan_volatile_read4(void *a) { on_access((uintptr_t) a, 4, false, RA); }
void __tsan_volatile_read8(void *a) { on_access((uintptr_t) a, 8, false, RA); }
void __tsan_volatile_write1(void *a) { on_access((uintptr_t) a, 1, true, RA); }
void __tsan_volatile_write2(void *a) { on_access((uintptr_t) a, 2, true, RA); }
void __tsan_volatile_write4(void *a) { on_access((uintptr_t) a, 4, true, RA); }
void __tsan_volatile_write8(void *a) { on_access((uintptr_t) a, 8, true, RA); }

// atomics: performed for real; they are synchronisation (scheduling points), their target joins the conflict set when written
static void atomic_point(void *a, size_t size, bool write) {
    if (!ts || !ts->mon || ts->internal) return;
    ts->stats.atomic_ops++;
    if (is_private((uintptr_t) a, size)) return;
    sched_point(POINT_ATOMIC, (uintptr_t) a);
    if (write) { ts->internal++; add_conflict((uintptr_t) a, size); journal_old((uintptr_t) a, size); ts->internal--; }
}
#define ATOMIC_OPS(BITS, T)                                                                                                           \
    T __tsan_atomic##BITS##_load(const volatile T *a, int) { atomic_point((void *) a, sizeof(T), false); return __atomic_load_n(a, __ATOMIC_SEQ_CST); }                    \
    void __tsan_atomic##BITS##_store(volatile T *a, T v, int) { atomic_point((void *) a, sizeof(T), true); __atomic_store_n(a, v, __ATOMIC_SEQ_CST); }                      \
    T __tsan_atomic##BITS##_exchange(volatile T *a, T v, int) { atomic_point((void *) a, sizeof(T), true); return __atomic_exchange_n(a, v, __ATOMIC_SEQ_CST); }            \
    T __tsan_atomic##BITS##_fetch_add(volatile T *a, T v, int) { atomic_point((void *) a, sizeof(T), true); return __atomic_fetch_add(a, v, __ATOMIC_SEQ_CST); }            \
    T __tsan_atomic##BITS##_fetch_sub(volatile T *a, T v, int) { atomic_point((void *) a, sizeof(T), true); return __atomic_fetch_sub(a, v, __ATOMIC_SEQ_CST); }            \
    T __tsan_atomic##BITS##_fetch_and(volatile T *a, T v, int) { atomic_point((void *) a, sizeof(T), true); return __atomic_fetch_and(a, v, __ATOMIC_SEQ_CST); }            \
    T __tsan_atomic##BITS##_fetch_or(volatile T *a, T v, int) { atomic_point((void *) a, sizeof(T), true); return __atomic_fetch_or(a, v, __ATOMIC_SEQ_CST); }              \
    T __tsan_atomic##BITS##_fetch_xor(volatile T *a, T v, int) { atomic_point((void *) a, sizeof(T), true); return __atomic_fetch_xor(a, v, __ATOMIC_SEQ_CST); }            \
    T __tsan_atomic##BITS##_fetch_nand(volatile T *a, T v, int) { atomic_point((void *) a, sizeof(T), true); return __atomic_fetch_nand(a, v, __ATOMIC_SEQ_CST); }          \
    int __tsan_atomic##BITS##_compare_exchange_strong(volatile T *a, T *c, T v, int, int) { atomic_point((void *) a, sizeof(T), true); return __atomic_compare_exchange_n(a, c, v, false, __ATOMIC_SEQ_CST, __ATOMIC_SEQ_CST); } \
    int __tsan_atomic##BITS##_compare_exchange_weak(volatile T *a, T *c, T v, int, int) { atomic_point((void *) a, sizeof(T), true); return __atomic_compare_exchange_n(a, c, v, false, __ATOMIC_SEQ_CST, __ATOMIC_SEQ_CST); }   \
    T __tsan_atomic##BITS##_compare_exchange_val(volatile T *a, T c, T v, int, int) { atomic_point((void *) a, sizeof(T), true); __atomic_compare_exchange_n(a, &c, v, false, __ATOMIC_SEQ_CST, __ATOMIC_SEQ_CST); return c; }
ATOMIC_OPS(8, unsigned char)
ATOMIC_OPS(16, unsigned short)
ATOMIC_OPS(32, unsigned int)
ATOMIC_OPS(64, unsigned long)
void __tsan_atomic_thread_fence(int) { __atomic_thread_fence(__ATOMIC_SEQ_CST); }
void __tsan_atomic_signal_fence(int) {}

// ---- libc interposition: memory intrinsics, allocation, locks, static-init guards ---------------------------------------------
void *memcpy(void *d, const void *s, size_t n) {
    if (ts && ts->mon && !ts->internal && n) { on_access((uintptr_t) s, n, false, RA); on_access((uintptr_t) d, n, true, RA); }
    unsigned char *dd = (unsigned char *) d; const unsigned char *ss = (const unsigned char *) s;
    for (size_t i = 0; i < n; ++i) dd[i] = ss[i];
    return d;
}
void *memmove(void *d, const void *s, size_t n) {
    if (ts && ts->mon && !ts->internal && n) { on_access((uintptr_t) s, n, false, RA); on_access((uintptr_t) d, n, true, RA); }
    unsigned char *dd = (unsigned char *) d; const unsigned char *ss = (const unsigned char *) s;
    if (dd < ss) for (size_t i = 0; i < n; ++i) dd[i] = ss[i]; else for (size_t i = n; i-- > 0;) dd[i] = ss[i];
    return d;
}
void *memset(void *d, int c, size_t n) {
    if (ts && ts->mon && !ts->internal && n) on_access((uintptr_t) d, n, true, RA);
    unsigned char *dd = (unsigned char *) d;
    for (size_t i = 0; i < n; ++i) dd[i] = (unsigned char) c;
    return d;
}
void *malloc(size_t n) { void *p = __libc_malloc(n); if (p && ts && ts->mon && !ts->internal) add_alloc(p, n); return p; }
void free(void *p) { if (p && ts && ts->mon && !ts->internal) del_alloc(p); __libc_free(p); }
void *calloc(size_t a, size_t b) { void *p = __libc_calloc(a, b); if (p && ts && ts->mon && !ts->internal) add_alloc(p, a * b); return p; }
void *realloc(void *o, size_t n) { if (o && ts && ts->mon && !ts->internal) del_alloc(o); void *p = __libc_realloc(o, n); if (p && ts && ts->mon && !ts->internal) add_alloc(p, n); return p; }
void *memalign(size_t al, size_t n) { void *p = __libc_memalign(al, n); if (p && ts && ts->mon && !ts->internal) add_alloc(p, n); return p; }
void *aligned_alloc(size_t al, size_t n) { return memalign(al, n); }
int posix_memalign(void **out, size_t al, size_t n) { void *p = memalign(al, n); if (!p) return ENOMEM; *out = p; return 0; }

typedef int (*mutex_fn)(pthread_mutex_t *);
static mutex_fn real_lock = nullptr, real_unlock = nullptr;
int pthread_mutex_lock(pthread_mutex_t *m) {
    if (!real_lock) real_lock = (mutex_fn) dlsym(RTLD_NEXT, "pthread_mutex_lock");
    if (ts && ts->mon && !ts->internal) {
        ts->stats.lock_ops++;
        // under the serialising scheduler a held mutex must not be waited for by the running thread: yield until it is free
        if (S.active) { sched_point(POINT_LOCK, (uintptr_t) m); int spins = 0; while (pthread_mutex_trylock(m) != 0) { sched_point(POINT_LOCK, (uintptr_t) m); if (++spins > 100000) break; } ts->locks++; return 0; }
        int r = real_lock(m); ts->locks++; return r;
    }
    return real_lock(m);
}
int pthread_mutex_unlock(pthread_mutex_t *m) {
    if (!real_unlock) real_unlock = (mutex_fn) dlsym(RTLD_NEXT, "pthread_mutex_unlock");
    int r = real_unlock(m);
    if (ts && ts->mon && !ts->internal) { if (ts->locks > 0) ts->locks--; if (S.active) sched_point(POINT_UNLOCK, (uintptr_t) m); }
    return r;
}
}  // extern "C"

// C++11 thread-safe initialisation of function-local statics: writes between a successful acquire and the release are synchronised
namespace __cxxabiv1 { extern "C" int __real___cxa_guard_acquire(long long *); }
extern "C" int __wrap___cxa_guard_acquire(long long *g) { int r = __cxxabiv1::__real___cxa_guard_acquire(g); if (r && ts && ts->mon) ts->guard++; return r; }
extern "C" void __real___cxa_guard_release(long long *);
extern "C" void __wrap___cxa_guard_release(long long *g) { if (ts && ts->mon && ts->guard > 0) ts->guard--; __real___cxa_guard_release(g); }
extern "C" void __real___cxa_guard_abort(long long *);
extern "C" void __wrap___cxa_guard_abort(long long *g) { if (ts && ts->mon && ts->guard > 0) ts->guard--; __real___cxa_guard_abort(g); }
