// Common machinery for the bounded-exhaustive engines: parallel fork runner with crash capture, deadline,
// counters in shared memory, evidence and replay writers. No dependency on the code under test.
#pragma once

#include <algorithm>
#include <atomic>
#include <cerrno>
#include <chrono>
#include <cinttypes>
#include <csignal>
#include <cstdint>
#include <cstdio>
#include <cstdlib>
#include <cstring>
#include <functional>
#include <map>
#include <set>
#include <sstream>
#include <string>
#include <vector>

#include <fcntl.h>
#include <sys/mman.h>
#include <sys/stat.h>
#include <sys/types.h>
#include <sys/wait.h>
#include <unistd.h>

namespace mc {

inline double now_s() {
    using namespace std::chrono;
    return duration<double>(steady_clock::now().time_since_epoch()).count();
}

inline std::string json_escape(const std::string &s) {
    std::string o;
    for (unsigned char c : s) {
        if (c == '"' || c == '\\') { o += '\\'; o += char(c); }
        else if (c == '\n') o += "\\n";
        else if (c < 0x20) { char b[8]; snprintf(b, sizeof b, "\\u%04x", c); o += b; }
        else o += char(c);
    }
    return o;
}

// ---- integer / key formatting (128-bit safe, exact for floats) ---------------------------------------------------
inline std::string to_str(unsigned __int128 v) {
    if (v == 0) return "0";
    char b[48]; int i = 47; b[i] = 0;
    while (v) { b[--i] = char('0' + int(v % 10)); v /= 10; }
    return b + i;
}
inline std::string to_str(__int128 v) { return v < 0 ? "-" + to_str((unsigned __int128)(-(v + 1)) + 1) : to_str((unsigned __int128) v); }
template<typename K> std::string key_str(K k) {
    if constexpr (std::is_floating_point_v<K>) { char b[64]; snprintf(b, sizeof b, "%a", double(k)); return b; }
    else if constexpr (std::is_signed_v<K>) return to_str((__int128) k);
    else return to_str((unsigned __int128) k);
}
template<typename K> K parse_key(const std::string &s) {
    if constexpr (std::is_floating_point_v<K>) return K(strtod(s.c_str(), nullptr));
    else if constexpr (std::is_signed_v<K>) return K(strtoll(s.c_str(), nullptr, 10));
    else return K(strtoull(s.c_str(), nullptr, 10));
}
template<typename K> std::string keys_str(const std::vector<K> &v) {
    std::string s;
    for (size_t i = 0; i < v.size(); ++i) { if (i) s += ','; s += key_str(v[i]); }
    return s;
}
inline std::vector<std::string> split(const std::string &s, char sep) {
    std::vector<std::string> out; std::string cur;
    for (char c : s) { if (c == sep) { out.push_back(cur); cur.clear(); } else cur += c; }
    if (!s.empty()) out.push_back(cur);
    return out;
}
template<typename K> std::vector<K> parse_keys(const std::string &s) {
    std::vector<K> v; for (auto &t : split(s, ',')) if (!t.empty()) v.push_back(parse_key<K>(t)); return v;
}

// "a=b c=d" -> map
inline std::map<std::string, std::string> parse_case(const std::string &s) {
    std::map<std::string, std::string> m;
    std::istringstream in(s); std::string tok;
    while (in >> tok) { auto p = tok.find('='); if (p != std::string::npos) m[tok.substr(0, p)] = tok.substr(p + 1); }
    return m;
}

// extract a string field from a (flat) json file written by us
inline std::string json_field(const std::string &text, const std::string &name) {
    auto p = text.find("\"" + name + "\"");
    if (p == std::string::npos) return "";
    p = text.find(':', p); p = text.find('"', p);
    if (p == std::string::npos) return "";
    std::string o;
    for (++p; p < text.size() && text[p] != '"'; ++p) {
        if (text[p] == '\\' && p + 1 < text.size()) { ++p; o += text[p] == 'n' ? '\n' : text[p]; } else o += text[p];
    }
    return o;
}
inline std::string read_file(const std::string &path) {
    FILE *f = fopen(path.c_str(), "rb"); if (!f) return "";
    std::string s; char b[4096]; size_t r;
    while ((r = fread(b, 1, sizeof b, f)) > 0) s.append(b, r);
    fclose(f); return s;
}

// ---- shared state between the parent and the forked workers --------------------------------------------------------
constexpr int MAX_WORKERS = 64;
constexpr int NCOUNTERS = 48;
constexpr int SLOT_BYTES = 1 << 16;
constexpr int MAX_VIOL_FILES = 12;      // replay files kept per run (others are counted only)
constexpr int NSAMPLES = 8;

struct Shared {
    std::atomic<uint64_t> next_task;
    std::atomic<uint64_t> counters[NCOUNTERS];
    std::atomic<uint64_t> violations;       // in-domain failures not matched by a known finding
    std::atomic<uint64_t> known;            // failures matched by an open known finding
    std::atomic<uint64_t> viol_files;
    std::atomic<uint64_t> capped;           // bit 0: deadline hit somewhere; bit 1: a state/memory cap of an engine was reached; bit 2: a worker was killed by resource limits
    std::atomic<uint64_t> tasks_done;
    std::atomic<uint64_t> nsamples;
    std::atomic<uint64_t> harness_errors;
    std::atomic<uint64_t> ignored_semantic;
    std::atomic<uint64_t> killed_workers;
    char samples[NSAMPLES][512];
    char known_lines[8][512];
    std::atomic<uint64_t> known_kinds;
    char first_violation[1024];
    char slot[MAX_WORKERS][SLOT_BYTES];     // current case of each worker (for crash capture)
    std::atomic<uint64_t> cur_task[MAX_WORKERS];
};

struct Options {
    std::string property;          // e.g. C01
    std::string tier = "quick";
    std::string replay;            // path of a replay file (empty: explore)
    std::string evidence_dir = "/verif/evidence";
    std::string replay_dir = "/verif/replays";
    std::string known_file = "/verif/build/known_open.txt";
    long seed = 0;
    int workers = 16;
    double deadline_s = 150;       // global wall-clock budget of the exploration
    double case_timeout_s = 60;    // watchdog: longest time a worker may spend on one case
    bool write_evidence = true;
    std::map<std::string, std::string> extra;
};

inline Options parse_args(int argc, char **argv) {
    Options o;
    if (const char *s = getenv("VERIF_SEED")) o.seed = atol(s);
    if (const char *s = getenv("VERIF_TIER")) o.tier = s;
    if (const char *s = getenv("VERIF_WORKERS")) o.workers = atoi(s);
    if (const char *s = getenv("VERIF_ROOT")) {
        o.evidence_dir = std::string(s) + "/evidence"; o.replay_dir = std::string(s) + "/replays";
        o.known_file = std::string(s) + "/build/known_open.txt";
    }
    for (int i = 1; i < argc; ++i) {
        std::string a = argv[i];
        auto val = [&]() -> std::string { return i + 1 < argc ? argv[++i] : ""; };
        if (a == "--prop") o.property = val();
        else if (a == "--tier") o.tier = val();
        else if (a == "--replay") o.replay = val();
        else if (a == "--deadline") o.deadline_s = atof(val().c_str());
        else if (a == "--workers") o.workers = atoi(val().c_str());
        else if (a == "--case-timeout") o.case_timeout_s = atof(val().c_str());
        else if (a == "--no-evidence") o.write_evidence = false;
        else if (a.rfind("--", 0) == 0) { auto k = a.substr(2); o.extra[k] = val(); }
    }
    if (o.tier != "quick" && o.tier != "thorough") o.tier = "quick";
    if (o.workers < 1) o.workers = 1;
    if (o.workers > MAX_WORKERS) o.workers = MAX_WORKERS;
    return o;
}

struct Run;
inline Run *g_run = nullptr;

// One exploration run = a list of tasks executed by forked workers. Tasks call the reporting functions below.
struct Run {
    Options opt;
    Shared *sh = nullptr;
    int worker_id = -1;            // -1 in the parent
    double t0 = 0, deadline_abs = 0;
    std::vector<std::string> counter_names;
    std::vector<std::pair<std::string, std::string>> known_open; // (property, predicate)
    std::string engine;

    explicit Run(const Options &o, const std::string &engine_name) : opt(o), engine(engine_name) {
        sh = (Shared *) mmap(nullptr, sizeof(Shared), PROT_READ | PROT_WRITE, MAP_SHARED | MAP_ANONYMOUS, -1, 0);
        if (sh == MAP_FAILED) { perror("mmap"); exit(2); }
        memset((void *) sh, 0, sizeof(Shared));
        t0 = now_s();
        deadline_abs = t0 + opt.deadline_s;
        memory_only = opt.property == "C17";
        setvbuf(stdout, nullptr, _IONBF, 0);
        g_run = this;
        std::string k = read_file(opt.known_file);
        for (auto &line : split(k, '\n')) {
            std::istringstream in(line); std::string p, q;
            if (in >> p >> q) known_open.emplace_back(p, q);
        }
    }

    int counter(const std::string &name) {
        for (size_t i = 0; i < counter_names.size(); ++i) if (counter_names[i] == name) return int(i);
        if (counter_names.size() >= NCOUNTERS) { fprintf(stderr, "too many counters\n"); exit(2); }
        counter_names.push_back(name);
        return int(counter_names.size()) - 1;
    }
    void add(int c, uint64_t v = 1) { sh->counters[c].fetch_add(v, std::memory_order_relaxed); }
    uint64_t get(const std::string &name) {
        for (size_t i = 0; i < counter_names.size(); ++i) if (counter_names[i] == name) return sh->counters[i].load();
        return 0;
    }
    bool deadline_passed() {
        if (now_s() > deadline_abs) { sh->capped.fetch_or(1); return true; }
        return false;
    }
    bool is_known(const std::string &predicate) const {
        for (auto &kv : known_open) if (kv.first == opt.property && kv.second == predicate) return true;
        return false;
    }

    // Record the case about to be executed, so that a fatal signal can be turned into a replay file by the parent.
    void set_case(const char *s) {
        if (worker_id < 0) return;
        size_t n = strlen(s); if (n >= SLOT_BYTES) n = SLOT_BYTES - 1;
        memcpy(sh->slot[worker_id], s, n); sh->slot[worker_id][n] = 0;
    }
    void set_case(const std::string &s) { set_case(s.c_str()); }

    void sample(const std::string &s) {
        if (sh->nsamples.load(std::memory_order_relaxed) >= NSAMPLES) return;
        auto i = sh->nsamples.fetch_add(1);
        if (i < NSAMPLES) { strncpy(sh->samples[i], s.c_str(), 511); }
    }

    std::string write_replay(const std::string &case_str, const std::string &what, const std::string &kind) {
        auto idx = sh->viol_files.fetch_add(1);
        if (idx >= MAX_VIOL_FILES) return "";
        std::string dir = opt.replay_dir + "/" + opt.property;
        std::string cmd = "mkdir -p '" + dir + "'"; if (system(cmd.c_str())) {}
        char name[64]; snprintf(name, sizeof name, "/%s_%03d.json", kind.c_str(), int(idx));
        std::string path = dir + name;
        FILE *f = fopen(path.c_str(), "w");
        if (!f) return "";
        fprintf(f, "{\n \"property\": \"%s\",\n \"engine\": \"%s\",\n \"kind\": \"%s\",\n \"case\": \"%s\",\n \"what\": \"%s\"\n}\n",
                opt.property.c_str(), engine.c_str(), kind.c_str(), json_escape(case_str).c_str(), json_escape(what).c_str());
        fclose(f);
        return path;
    }

    // A failure of the property on `case_str`. `predicate` (may be empty) names a known-finding predicate that the engine
    // has evaluated to TRUE on this very case; the failure is then a KNOWN-FINDING if the committed file lists it.
    // C17 runs the other engines' corpora under AddressSanitizer; there only memory errors and fatal signals count, a wrong answer
    // belongs to the property that owns the corpus.
    bool memory_only = false;
    static bool is_memory_report(const std::string &what) {
        return what.rfind("AddressSanitizer", 0) == 0 || what.rfind("fatal signal", 0) == 0 || what.rfind("worker exited", 0) == 0 || what.rfind("the operation did not return", 0) == 0;
    }
    void violation(const std::string &case_str, const std::string &what, const std::string &predicate = "") {
        if (memory_only && !is_memory_report(what)) { sh->ignored_semantic.fetch_add(1); return; }
        if (!predicate.empty() && is_known(predicate)) {
            sh->known.fetch_add(1);
            auto k = sh->known_kinds.load();
            bool seen = false;
            for (uint64_t i = 0; i < k && i < 8; ++i) if (predicate == std::string(sh->known_lines[i]).substr(0, predicate.size())) seen = true;
            if (!seen) { auto i = sh->known_kinds.fetch_add(1); if (i < 8) snprintf(sh->known_lines[i], 512, "%s witness: %s (%s)", predicate.c_str(), case_str.c_str(), what.c_str()); }
            return;
        }
        auto first = sh->violations.fetch_add(1) == 0;
        if (const char *dump = getenv("VERIF_DUMP")) {   // triage aid: one line per violation
            int fd = open(dump, O_WRONLY | O_CREAT | O_APPEND, 0644);
            if (fd >= 0) { std::string l = what + " :: " + case_str.substr(0, 600) + "\n"; if (write(fd, l.data(), l.size())) {} close(fd); }
        }
        std::string path = write_replay(case_str, what, "violation");
        if (first) snprintf(sh->first_violation, sizeof sh->first_violation, "%s", path.c_str());
        if (!path.empty()) {
            char line[2048];
            snprintf(line, sizeof line, "VIOLATION property=%s replay=%s  # %s :: %s\n", opt.property.c_str(), path.c_str(), what.c_str(), case_str.substr(0, 900).c_str());
            if (write(1, line, strlen(line))) {}
        }
    }
    void harness_error(const std::string &msg) {
        sh->harness_errors.fetch_add(1);
        fprintf(stderr, "HARNESS-ERROR: %s\n", msg.c_str());
    }

    // Execute tasks 0..ntasks-1 on forked workers (dynamic assignment). A worker that dies on a signal is reported as a
    // violation with the case it was executing, and a fresh worker continues with the remaining tasks.
    void run_tasks(uint64_t ntasks, const std::function<void(uint64_t)> &task) {
        fflush(stdout); fflush(stderr);
        sh->next_task.store(0);
        int nw = (int) std::min<uint64_t>(opt.workers, ntasks ? ntasks : 1);
        std::map<pid_t, int> pids;
        auto spawn = [&](int wid) {
            fflush(stdout); fflush(stderr);
            pid_t p = fork();
            if (p < 0) { perror("fork"); exit(2); }
            if (p == 0) {
                worker_id = wid;
                for (;;) {
                    auto t = sh->next_task.fetch_add(1);
                    if (t >= ntasks) break;
                    sh->cur_task[wid].store(t);
                    sh->slot[wid][0] = 0;
                    task(t);
                    sh->tasks_done.fetch_add(1);
                }
                fflush(stdout); fflush(stderr);
                _exit(0);
            }
            pids[p] = wid;
        };
        for (int w = 0; w < nw; ++w) spawn(w);
        // watchdog: a worker that stays on the same case for longer than case_timeout_s does not return from the code under test
        // (every case of every engine completes in well under a second on the unchanged tree); it is stopped and reported.
        std::map<int, std::pair<uint64_t, double>> progress;   // wid -> (hash of the case slot, time it was first seen)
        std::set<int> hung;
        while (!pids.empty()) {
            int st = 0; pid_t p = waitpid(-1, &st, WNOHANG);
            if (p == 0) {
                usleep(100000);
                double now = now_s();
                for (auto &pw : pids) {
                    int wid = pw.second;
                    uint64_t h = 1469598103934665603ull; for (const char *c = sh->slot[wid]; *c; ++c) { h ^= (unsigned char) *c; h *= 1099511628211ull; }
                    h ^= sh->cur_task[wid].load() * 0x9e3779b97f4a7c15ull;
                    auto &pr = progress[wid];
                    if (pr.first != h) { pr = {h, now}; continue; }
                    if (now - pr.second > opt.case_timeout_s && sh->slot[wid][0] && !hung.count(wid)) { hung.insert(wid); kill(pw.first, SIGTERM); }
                }
                continue;
            }
            if (p < 0) { if (errno == EINTR) continue; break; }
            auto it = pids.find(p); if (it == pids.end()) continue;
            int wid = it->second; pids.erase(it);
            progress.erase(wid);
            if (hung.count(wid)) {
                hung.erase(wid);
                char what[160]; snprintf(what, sizeof what, "the operation did not return within %.0f s (cases of this kind complete in milliseconds): non-termination", opt.case_timeout_s);
                on_crash(sh->slot[wid], what);
                if (sh->next_task.load() < ntasks) spawn(wid);
                continue;
            }
            bool crashed = WIFSIGNALED(st) || (WIFEXITED(st) && WEXITSTATUS(st) != 0);
            if (WIFSIGNALED(st) && WTERMSIG(st) == SIGKILL) {
                // killed from outside (out-of-memory killer, operator): a resource limit of the exploration, not a verdict about the code
                sh->capped.fetch_or(4); sh->killed_workers.fetch_add(1);
                fprintf(stderr, "WARNING: worker killed by SIGKILL (resource limit) while executing: %.300s\n", sh->slot[wid]);
                if (sh->next_task.load() < ntasks) spawn(wid);
                continue;
            }
            if (crashed) {
                std::string c = sh->slot[wid];
                char what[128];
                if (WIFSIGNALED(st)) snprintf(what, sizeof what, "fatal signal %d (%s) while executing this case", WTERMSIG(st), strsignal(WTERMSIG(st)));
                else snprintf(what, sizeof what, "worker exited with status %d while executing this case", WEXITSTATUS(st));
                if (c.empty()) { harness_error(std::string(what) + " (no case recorded, task " + std::to_string(sh->cur_task[wid].load()) + ")"); }
                else on_crash(c, what);
                if (sh->next_task.load() < ntasks) spawn(wid);
            }
        }
    }

    // Engines may override how a crash is classified (e.g. a crash whose case satisfies a known-finding predicate).
    std::function<void(const std::string &, const std::string &)> crash_hook;
    void on_crash(const std::string &c, const std::string &what) {
        if (crash_hook) crash_hook(c, what); else violation(c, what);
    }

    struct EvidenceExtra {
        std::string level = "model_checking";
        std::string rule;
        std::string states_counter, transitions_counter, traces_counter, nontrivial_counter, eval_counter;
        std::vector<std::string> assumptions;
        std::string bounds;       // free text: the bounds completed
        std::vector<std::string> extra_samples;
    };

    // Writes the evidence file and prints the final verdict lines. Returns the process exit code.
    int finish(const EvidenceExtra &e) {
        double wall = now_s() - t0;
        uint64_t viol = sh->violations.load(), known = sh->known.load(), herr = sh->harness_errors.load();
        uint64_t capbits = sh->capped.load();
        bool capped = capbits != 0;
        std::string capwhy = capped ? std::string("false(") + ((capbits & 1) ? "deadline " : "") + ((capbits & 2) ? "state-cap " : "") + ((capbits & 4) ? "resource-limit " : "") + ")" : "true";
        for (uint64_t i = 0; i < std::min<uint64_t>(sh->known_kinds.load(), 8); ++i)
            printf("KNOWN-FINDING: property=%s %s\n", opt.property.c_str(), sh->known_lines[i]);
        if (opt.write_evidence) {
            if (system(("mkdir -p '" + opt.evidence_dir + "'").c_str())) {}
            std::string path = opt.evidence_dir + "/" + opt.property + ".json";
            FILE *f = fopen((path + ".tmp").c_str(), "w");
            if (!f) { perror("evidence"); return 2; }
            fprintf(f, "{\n \"property_id\": \"%s\",\n \"tier\": \"%s\",\n \"seed\": %ld,\n \"level\": \"%s\",\n", opt.property.c_str(), opt.tier.c_str(), opt.seed, e.level.c_str());
            fprintf(f, " \"engine\": \"%s\",\n \"coverage\": {\n", engine.c_str());
            fprintf(f, "  \"states\": %" PRIu64 ",\n  \"transitions\": %" PRIu64 ",\n  \"traces_validated_against_impl\": %" PRIu64 ",\n",
                    get(e.states_counter), get(e.transitions_counter), get(e.traces_counter.empty() ? e.states_counter : e.traces_counter));
            fprintf(f, "  \"evaluations\": %" PRIu64 ",\n  \"distinct_nontrivial\": %" PRIu64 ",\n", get(e.eval_counter.empty() ? e.transitions_counter : e.eval_counter), get(e.nontrivial_counter));
            fprintf(f, "  \"rule\": \"%s\",\n  \"bounds_completed\": \"%s\",\n  \"exhaustive\": %s,\n  \"deadline_hit\": %s,\n  \"state_cap_hit\": %s,\n", json_escape(e.rule).c_str(), json_escape(e.bounds).c_str(), capped ? "false" : "true", (capbits & 1) ? "true" : "false", (capbits & 2) ? "true" : "false");
            fprintf(f, "  \"counters\": {");
            for (size_t i = 0; i < counter_names.size(); ++i) fprintf(f, "%s\"%s\": %" PRIu64, i ? ", " : "", counter_names[i].c_str(), sh->counters[i].load());
            fprintf(f, "},\n  \"samples\": [");
            bool first = true;
            for (uint64_t i = 0; i < std::min<uint64_t>(sh->nsamples.load(), NSAMPLES); ++i) { fprintf(f, "%s\"%s\"", first ? "" : ", ", json_escape(sh->samples[i]).c_str()); first = false; }
            for (auto &s : e.extra_samples) { fprintf(f, "%s\"%s\"", first ? "" : ", ", json_escape(s).c_str()); first = false; }
            if (first) fprintf(f, "\"(none)\"");
            fprintf(f, "]\n },\n \"assumptions\": [");
            for (size_t i = 0; i < e.assumptions.size(); ++i) fprintf(f, "%s\"%s\"", i ? ", " : "", json_escape(e.assumptions[i]).c_str());
            fprintf(f, "],\n \"wall_s\": %.2f,\n \"violations\": %" PRIu64 ",\n \"known_finding_hits\": %" PRIu64 ",\n \"harness_errors\": %" PRIu64 ",\n \"semantic_mismatches_ignored_in_memory_only_mode\": %" PRIu64 ",\n \"workers_killed_by_resource_limits\": %" PRIu64 "\n}\n", wall, viol, known, herr, sh->ignored_semantic.load(), sh->killed_workers.load());
            fclose(f);
            rename((path + ".tmp").c_str(), path.c_str());
        }
        printf("[%s %s %s] states=%" PRIu64 " transitions=%" PRIu64 " nontrivial=%" PRIu64 " violations=%" PRIu64 " known=%" PRIu64 " exhaustive=%s wall=%.1fs\n",
               engine.c_str(), opt.property.c_str(), opt.tier.c_str(), get(e.states_counter), get(e.transitions_counter), get(e.nontrivial_counter), viol, known, capwhy.c_str(), wall);
        if (herr) { fprintf(stderr, "harness errors: %" PRIu64 "\n", herr); return 2; }
        if (viol) {
            if (sh->first_violation[0] == 0) printf("VIOLATION property=%s replay=(not written)\n", opt.property.c_str());
            return 1;
        }
        return 0;
    }
};

// ---- enumerators ---------------------------------------------------------------------------------------------------
// All non-decreasing index vectors of length len over 0..U-1, whose first element is `first` (so that the space can be
// split into tasks by (len, first)). Calls f(idx). Returns false if f asked to stop.
template<typename F>
inline bool for_each_multiset(int U, int len, int first, F &&f) {
    std::vector<int> idx(len, first);
    for (;;) {
        if (!f(idx)) return false;
        int i = len - 1;
        while (i >= 1 && idx[i] == U - 1) --i;
        if (i < 1) return true;
        int v = idx[i] + 1;
        for (int j = i; j < len; ++j) idx[j] = v;
    }
}

}  // namespace mc
