// Interface of the replacement TSan runtime (see vrt.cpp).
#pragma once
#include <cstddef>
#include <cstdint>
#include <vector>

namespace vrt {

struct Stats {
    uint64_t accesses = 0, shared_reads = 0, shared_writes = 0, locked_writes = 0, guarded_init_writes = 0, atomic_ops = 0, lock_ops = 0, alloc_overflow = 0;
    int escaped_allocations = 0;
};
struct WriteRecord { uintptr_t addr; size_t size; void *pc; bool under_lock; };

enum { POINT_START = 0, POINT_CALL = 1, POINT_READ = 2, POINT_WRITE = 3, POINT_ATOMIC = 4, POINT_LOCK = 5, POINT_UNLOCK = 6, POINT_FINISH = 7 };
struct Point {
    int kind; uintptr_t addr; int running; bool running_enabled;
    int enabled[8]; int n_enabled; int chosen;   // chosen = index into enabled (canonical order: running thread first if enabled, then ascending)
};

void thread_init(int tid);            // call first on every thread (tid -1: the main thread)
void mon_begin();                     // start classifying accesses of this thread
Stats mon_end();
void restore_world();                 // write back the journaled old contents of every shared location written so far
size_t conflict_count();
const std::vector<WriteRecord> &shared_writes();
void clear_conflicts();

void sched_begin(int nthreads, const std::vector<int> *prefix, std::vector<Point> *points);
void sched_start_and_wait();
void sched_thread_enter(int tid);
void sched_thread_exit(int tid);
void sched_call_boundary();
bool sched_diverged();
void set_access_budget(uint64_t accesses_per_call);   // horizon of one monitored call under the scheduler
bool thread_aborted(int tid);                         // the thread's current call exceeded the horizon and was cut off

}  // namespace vrt
