# Builds the verification engines from /repo's current working tree (override with REPO=...).
REPO ?= /repo
B    ?= build
CXX  ?= g++
CLANGXX ?= clang++

COMMON = -std=gnu++17 -march=native -fno-access-control -DPGM_INDEX_VERIF -I$(REPO)/include -I$(REPO)/c-interface -I. -w
PROD   = $(COMMON) -O2 -DNDEBUG -D_OPENMP=201511
ASAN   = $(COMMON) -O1 -g -D_OPENMP=201511 -DVERIF_ASAN -fsanitize=address -fsanitize-recover=address -D_GLIBCXX_SANITIZE_VECTOR -fno-omit-frame-pointer

# every object depends on the stamp, which scripts/stamp.sh touches whenever the content hash of the repo sources changes
STAMP = $(B)/repo.stamp
HDRS  = mc/common.hpp $(wildcard engines/*.hpp) $(STAMP)

SEARCH_SRC = engines/search_main.cpp $(wildcard engines/cfg/search_cfg_*.cpp)
SEARCH_OBJ = $(patsubst engines/%.cpp,$(B)/prod/%.o,$(SEARCH_SRC))
SEARCH_AOBJ = $(patsubst engines/%.cpp,$(B)/asan/%.o,$(SEARCH_SRC))

.PHONY: all prod asan clean
all: prod asan
asan: $(B)/copymove_asan $(B)/search_asan $(B)/multidim_asan $(B)/mapped_asan $(B)/dynamic_asan $(B)/cabi_asan
prod: $(B)/ompbind_real $(B)/conc_mc $(B)/conc_tsan $(B)/search $(B)/segmentation $(B)/dynamic $(B)/multidim $(B)/mapped $(B)/cabi $(B)/reject

$(STAMP):
	@mkdir -p $(B) && touch $@

$(B)/prod/%.o: engines/%.cpp $(HDRS)
	@mkdir -p $(dir $@)
	$(CXX) $(PROD) -c $< -o $@

$(B)/asan/%.o: engines/%.cpp $(HDRS)
	@mkdir -p $(dir $@)
	$(CXX) $(ASAN) -c $< -o $@

$(B)/search: $(SEARCH_OBJ)
	$(CXX) $(PROD) $^ -o $@

$(B)/segmentation: $(B)/prod/segmentation.o
	$(CXX) $(PROD) $^ -o $@

$(B)/dynamic: $(B)/prod/dynamic.o
	$(CXX) $(PROD) $^ -o $@

$(B)/dynamic_asan: $(B)/asan/dynamic.o
	$(CXX) $(ASAN) $^ -o $@

$(B)/multidim: $(B)/prod/multidim.o
	$(CXX) $(PROD) $^ -o $@

$(B)/multidim_asan: $(B)/asan/multidim.o
	$(CXX) $(ASAN) $^ -o $@

$(B)/mapped: $(B)/prod/mapped.o
	$(CXX) $(PROD) $^ -o $@

$(B)/mapped_asan: $(B)/asan/mapped.o
	$(CXX) $(ASAN) $^ -o $@

$(B)/prod/cpgm.o: $(REPO)/c-interface/cpgm.cpp $(STAMP)
	@mkdir -p $(dir $@)
	$(CXX) $(PROD) -c $< -o $@

$(B)/asan/cpgm.o: $(REPO)/c-interface/cpgm.cpp $(STAMP)
	@mkdir -p $(dir $@)
	$(CXX) $(ASAN) -c $< -o $@

$(B)/cabi: $(B)/prod/cabi.o $(B)/prod/cpgm.o
	$(CXX) $(PROD) $^ -o $@

$(B)/cabi_asan: $(B)/asan/cabi.o $(B)/asan/cpgm.o
	$(CXX) $(ASAN) $^ -o $@

$(B)/copymove_asan: $(B)/asan/copymove.o
	$(CXX) $(ASAN) $^ -o $@

$(B)/copymove: $(B)/prod/copymove.o
	$(CXX) $(PROD) $^ -o $@

$(B)/reject: $(B)/prod/reject.o $(B)/prod/cpgm.o
	$(CXX) $(PROD) $^ -o $@

# concurrency engine: the zoo is compiled by clang with TSan instrumentation; conc links it against mc/vrt.cpp (own runtime),
# conc_tsan against the real ThreadSanitizer runtime
TSANFLAGS = -std=gnu++17 -march=native -O1 -g -DNDEBUG -fno-access-control -DPGM_INDEX_VERIF -I$(REPO)/include -I. -w -fsanitize=thread
$(B)/conc/zoo.o: engines/conc_zoo.cpp engines/conc_zoo.hpp $(STAMP)
	@mkdir -p $(dir $@)
	$(CLANGXX) $(TSANFLAGS) -c $< -o $@
$(B)/conc/vrt.o: mc/vrt.cpp mc/vrt.hpp
	@mkdir -p $(dir $@)
	$(CXX) -std=gnu++17 -O1 -g -fno-builtin -fno-tree-loop-distribute-patterns -fno-omit-frame-pointer -c $< -o $@
$(B)/conc/main.o: engines/conc_main.cpp mc/common.hpp mc/vrt.hpp engines/conc_zoo.hpp
	@mkdir -p $(dir $@)
	$(CXX) -std=gnu++17 -O1 -g -I. -w -c $< -o $@
$(B)/conc_mc: $(B)/conc/main.o $(B)/conc/zoo.o $(B)/conc/vrt.o
	$(CXX) $^ -o $@ -pthread -ldl -Wl,--wrap=__cxa_guard_acquire -Wl,--wrap=__cxa_guard_release -Wl,--wrap=__cxa_guard_abort
$(B)/conc_tsan: engines/conc_tsan_main.cpp $(B)/conc/zoo.o
	$(CLANGXX) $(TSANFLAGS) $^ -o $@ -pthread

$(B)/ompbind_real: engines/ompbind_main.cpp engines/ompbind.hpp engines/keyspace.hpp mc/common.hpp $(STAMP)
	$(CXX) -std=gnu++17 -O2 -DNDEBUG -march=native -fopenmp -fno-access-control -I$(REPO)/include -I. -w $< -o $@

$(B)/search_asan: $(SEARCH_AOBJ)
	$(CXX) $(ASAN) $^ -o $@

clean:
	rm -rf $(B)
