#!/bin/bash
# usage: scripts/replay.sh <replay file>   -- re-executes exactly the recorded case on the engine that produced it
cd "$(dirname "$0")/.."
f="$1"
eng=$(python3 -c "import json,sys; print(json.load(open(sys.argv[1]))['engine'])" "$f")
prop=$(python3 -c "import json,sys; print(json.load(open(sys.argv[1]))['property'])" "$f")
./scripts/stamp.sh
bin=build/$eng
[ "$prop" = C17 ] && bin=build/${eng}_asan
make -s -j16 "$bin" >/dev/null 2>&1
exec "./$bin" --prop "$prop" --replay "$f"
