#!/bin/bash
# usage: scripts/run_seeded.sh <seed id, e.g. C05_A> [property ids to run ... default: the seed's own property] [-- tier]
# Applies seeded/<id>/patch.diff to a scratch worktree of /repo's HEAD, runs the named checks against it (own build directory,
# own output directory) and records the verdicts in seeded/<id>/verdict.json. /repo itself is not touched.
set -u
cd "$(dirname "$0")/.."
V=$(pwd)
id=$1; shift
props=(); tier=quick
while [ $# -gt 0 ]; do if [ "$1" = "--" ]; then tier=$2; break; fi; props+=("$1"); shift; done
[ ${#props[@]} -eq 0 ] && props=("${id%%_*}")
W=/tmp/seedrun_$id
rm -rf "$W"; flock /tmp/verif_worktree.lock git -C /repo worktree prune; flock /tmp/verif_worktree.lock git -C /repo worktree add -q "$W/repo" HEAD || exit 2
( cd "$W/repo" && git apply "$V/seeded/$id/patch.diff" ) || { echo "patch does not apply"; flock /tmp/verif_worktree.lock git -C /repo worktree remove --force "$W/repo"; exit 2; }
res="{}"
for p in "${props[@]}"; do
  start=$(date +%s)
  VERIF_REPO="$W/repo" VERIF_BUILD="$W/build" VERIF_OUT="$W/out" ./scripts/check.sh "$p" "$tier" > "$W/out_$p.log" 2>&1; rc=$?
  end=$(date +%s)
  first=$(grep -m1 "^VIOLATION" "$W/out_$p.log" | cut -c1-700)
  summary=$(grep -E "^\[" "$W/out_$p.log" | tail -1)
  echo "$id $p exit=$rc $summary"
  [ -n "$first" ] && echo "   $first" | cut -c1-300
  res=$(python3 -c "
import json,sys
r=json.loads(sys.argv[1]); r[sys.argv[2]]={'exit':int(sys.argv[3]),'tier':sys.argv[4],'seconds':int(sys.argv[5]),'summary':sys.argv[6],'first_violation':sys.argv[7]}
print(json.dumps(r))" "$res" "$p" "$rc" "$tier" "$((end-start))" "$summary" "$first")
done
python3 -c "
import json,sys,os
p=sys.argv[1]; new=json.loads(sys.argv[2])
old=json.load(open(p)) if os.path.exists(p) else {}
old.update(new); json.dump(old,open(p,'w'),indent=1)" "seeded/$id/verdict.json" "$res"
flock /tmp/verif_worktree.lock git -C /repo worktree remove --force "$W/repo"; rm -rf "$W"
