#!/bin/bash
# Runs the repository's own test suite with the verification guard OFF (the normal build): 45 Catch2 test cases.
set -e
B=/repo/_build
if [ ! -f "$B/build.ninja" ] && [ ! -f "$B/Makefile" ]; then cmake -G Ninja -B "$B" -S /repo -DCMAKE_BUILD_TYPE=RelWithDebInfo; fi
cmake --build "$B" --target tests -j16
ctest --test-dir "$B" -j8 --timeout 900
