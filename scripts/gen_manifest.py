#!/usr/bin/env python3
"""Writes MANIFEST.json from the table below and validates it (and any evidence files) against the schemas."""
import json, os, subprocess, sys
root = os.path.dirname(os.path.dirname(os.path.abspath(__file__)))

CHECKS = {
 # id: (engine, technique, level text, level note, design ref)
 'C01': ('search', 'bounded-exhaustive input enumeration on the real code (all sorted arrays up to N over adversarial palettes x all present keys; grammar families at the chunking threshold), std::lower_bound oracle',
         'Every sorted array of length <= N over four 10-value palettes per key type, for a table of (key type, Epsilon, EpsilonRecursive, slope type) instantiations, is built with the real PGMIndex and every present key is searched; plus every member of the seam-window and block grammars (n=2^15, 2..20 chunks). A counterexample inside the bounds cannot be missed; outside the bounds nothing is claimed.',
         'Template parameters are a finite table; arrays beyond N=8/10 are covered only by the grammar families; oracle is std::lower_bound on the caller data; build flags mirror the shipped test build (-O2 -DNDEBUG -march=native).', '4/C01'),
 'C02': ('search', 'bounded-exhaustive input x query enumeration on the real code, std::lower_bound oracle',
         'Same state space as C01 but every query of the alphabet (present, absent, +-1, gap midpoints, lowest(), max-1, far values) is checked: lower_bound restricted to [lo,hi) must equal the global lower_bound.',
         'As C01.', '4/C02'),
 'C03': ('segmentation', 'bounded-exhaustive input enumeration driving make_segmentation / make_segmentation_par directly; hook H1 point log; exact 128-bit rational evaluation of the reported line',
         'Every sorted array up to N over the palettes, epsilon 0..3, integer and floating keys, plus the seam-window family through the chunked builder (2..20 chunks) and the block grammar for epsilon up to 64/1024: every point the builder was fed (hook H1) is checked against the line reported for the segment that absorbed it (exact rational arithmetic, tolerance epsilon+1/2 for integer keys; long double, epsilon+1 for floating keys), segments in increasing key order, each point in exactly one segment by position and by key interval, every distinct key fed at its first-occurrence rank, return value equals the number of segments.',
         'Hook H1 reports the points handed to add_point; chunk count controlled by answering omp_get_num_procs/omp_get_max_threads in the harness (chunks run sequentially).', '4/C03'),
 'C04': ('segmentation', 'bounded-exhaustive input enumeration; builder partition compared with the greedy partition of an independent exact stabbing-line oracle',
         'Same runs as C03 (integer keys): for every builder call, including every chunk and every upper-level call made while constructing PGMIndex objects, the partition into segments must equal the greedy maximal partition computed by an exact rational feasibility oracle (pairwise slope bounds, cross-checked between a naive and a hull-pruned implementation); hence minimal count for sequential builds, at most c-1 extra for c chunks, segment starts more than 2*epsilon ranks apart, segments_count() <= floor(n/(2eps+1))+c+1.',
         'As C03; greedy with an exact oracle is optimal because feasibility is closed under taking subsets.', '4/C04'),
 'C05': ('dynamic', 'explicit-state breadth-first search over operation histories on the real DynamicPGMIndex (object copied per transition, canonical-state deduplication), std::map reference model',
         'All histories of insert_or_assign/erase over 4-7 colliding keys and 2 values up to the stated depth, from empty, from every small bulk-load, from deep bulk-loads and from non-initial states reached by fixed insert prefixes, for tiny (base, buffer_level, index_level) configurations that cascade through 3-4 levels and give small levels a PGM-index, with arithmetic, pointer and std::string values: in every distinct state find/count/lower_bound agree with std::map for every alphabet key and its neighbours.',
         'Canonical form = used_levels + per-level (key,value|tombstone) lists; equal forms have equal futures (per-level indexes are a function of the level contents, which C15 checks). Depth/key-set bounds as reported in the evidence.', '4/C05'),
 'C06': ('dynamic', 'explicit-state breadth-first search over operation histories on the real DynamicPGMIndex, std::map reference model',
         'Same state space as C05; in every distinct state: iteration from begin() with ++it and with it++ and from lower_bound(q) for every q to end() (strictly increasing live keys with current values, terminates), range(lo,hi) for every lo<=hi of the query alphabet equals the map slice exactly, size(), empty().',
         'As C05.', '4/C06'),
 'C11': ('mapped', 'bounded-exhaustive input x query enumeration on the real MappedPGMIndex with real files, std algorithm oracles',
         'Every sorted array up to N over the palettes (signed/unsigned, 16..64 bit) and every member of the run family (runs shorter than, equal to and longer than the search range, powers of two +-1 for the gallop, last run ending at n) is stored through the range constructor; lower_bound, upper_bound, count, contains for every query of the alphabet equal std::lower_bound/upper_bound/count/binary_search, begin()/end()/size() expose the array.',
         'Files in a per-worker scratch directory; harness closes the descriptors leaked by map_file.', '4/C11'),
 'C12': ('mapped', 'exhaustive enumeration of create/raw-create/reopen/destroy histories per input on the real MappedPGMIndex, byte-level file comparison',
         'For every sorted array up to N (first key negative, zero, positive) every history of the stated length over {create from range, create from raw file, reopen f1, reopen f2, destroy object i}: after every step all live objects pass the C11 battery, the two files are byte-identical, reopened objects hold the same index members as the creator, files never change.',
         'As C11.', '4/C12'),
 'C16': ('conc', 'stateless model checking of thread schedules on the real code: access monitor over compiler instrumentation (own __tsan_* runtime) proves the shared write set empty; preemption-bounded exhaustive DFS over schedules under a serialising hand-off scheduler; free-running ThreadSanitizer as cross-check',
         'For 10 objects (PGMIndex and CompressedPGMIndex on both routing paths, two BucketingPGMIndex, EliasFano, Mapped, Multidimensional, Dynamic after updates) x 8 read-only queries each (search; find, count, size, empty, lower_bound, range, iteration; contains and box ranges; mapped lower/upper_bound, count, contains): (1) every query is executed under a monitor fed by clang -fsanitize=thread instrumentation; any write to memory that is neither the thread stack nor allocated inside the query is a data race between two threads running that query, and is reported with its addresses; on the unchanged tree the shared write set is empty, which makes all interleavings of any number of readers equivalent. (2) All schedules of 2 threads x 2 calls and 3 threads x 1 call over a 4-query alphabet per class are executed on real threads up to preemption bound 2 (3 thorough), with scheduling points at call boundaries, conflict-set accesses, atomics and mutex operations; every call must return its solo digest; a call that does not return within an access horizon is a violation. (3) 16 free-running threads under the real TSan runtime.',
         'Sequentially consistent interleavings; instrumentation covers the header-only library, libstdc++ templates, memcpy/memmove/memset and the allocator (interposed); failing schedules are replayed before they are reported.', '4/C16'),
 'C17': ('memsafe', 'bounded-exhaustive enumeration (the corpora of the other engines at reduced bounds) executed under AddressSanitizer with sdsl asserts enabled; sanitizer report or fatal signal = violation',
         'The search, multidim, mapped, dynamic, cabi and copymove engines are rebuilt with -fsanitize=address (recover mode, _GLIBCXX_SANITIZE_VECTOR, no NDEBUG) and run over their own input/history spaces: smallest sizes, empty containers, queries at lowest()/below first/above last/max-1, iterators driven to end(), boxes reaching the last point, copies outliving sources. Every case that triggers a sanitizer report, a failed assert or a fatal signal is a violation; wrong answers are left to the owning property.',
         'ASan granularity; reduced bounds (N<=5 static, shorter histories).', '4/C17'),
 'C18': ('cabi', 'bounded-exhaustive enumeration of inputs (static) and of call histories (dynamic) through the C functions of cpgm.h only, std::lower_bound / std::map oracles',
         'Static: every sorted array up to N for the four C types with run-time epsilon in {1,2,3,64,4096} and the block grammar, all alphabet queries, NULL exactly when the reserved value is present. Dynamic: every history of insert_or_assign/erase over 4 colliding keys x 2 values up to the stated depth from create_empty, from every create() of <= 3 pairs and from a deep state whose next insert merges the 585-entry buffer into level 4; find, lower_bound + iterator_next, begin + iterator_next to exhaustion, size compared with std::map after every step.',
         'cpgm.cpp compiled from the repository; opaque handles cannot be copied, so histories are re-executed from scratch.', '4/C18'),
 'C19': ('copymove', 'exhaustive enumeration of copy/move/destroy/mutate/query histories over two slots on the real classes under AddressSanitizer',
         'For 13 class instantiations and every ordered pair of 3-4 datasets (plus near-twin datasets and a 600,001-key dataset for the succinct classes), every valid history up to the stated length over {copy-construct, move-construct, copy-assign, move-assign, destroy source, mutate source, query target}: the target answers its whole query alphabet exactly like a freshly built original and AddressSanitizer reports no access to freed or foreign storage.',
         'AddressSanitizer build (-O1, no NDEBUG); a moved-from source is only destroyed or assigned to.', '4/C19'),
 'C20': ('reject', 'exhaustive enumeration of precondition violations at every position, on the real classes and the C interface',
         'Reserved value appended (1..3 copies) to every sorted array up to N for all static classes, both MappedPGMIndex constructors and the C create functions; every DynamicPGMIndex base 2..255; every short bulk-load key sequence (inversions anywhere); the reserved mapped value offered at every point of every short update history with canonical-state and answer comparison; lo>hi ranges; too-wide coordinates at every point position and dimension; every short add_point sequence; negative epsilon. Each invalid input must raise the documented exception (NULL from C), each valid neighbour must be accepted.',
         'Private members read with -fno-access-control for the canonical-state comparison.', '4/C20'),
 'C13': ('multidim', 'bounded-exhaustive enumeration of point multisets x boxes on the real MultidimensionalPGMIndex at the real miss threshold, brute-force oracle',
         'Every multiplicity vector in {0,1,65}^cells over small cell universes (65 copies force the bigmin skip path), full grids 16x16/32x32/8^3/4^4 with every axis-aligned box, grids with an enumerated window; Dimensions 2..4, uint32/uint64, Epsilon 1..16(64): the sequence produced by range(min,max) up to end() must equal the brute-force filter in Morton order with multiplicity and terminate.',
         'Own Morton code (self-checked against the library at start-up); coordinates fit the encoder.', '4/C13'),
 'C14': ('multidim', 'bounded-exhaustive enumeration of point multisets x query points on the real MultidimensionalPGMIndex, set-membership oracle',
         'Same multisets as C13; every cell of the universe plus cells just outside it and at the largest encodable coordinate is passed to contains(): true iff stored.',
         'As C13.', '4/C14'),
 'C15': ('dynamic', 'explicit-state breadth-first search over operation histories on the real DynamicPGMIndex, invariant evaluated in every state',
         'Same state space as C05; in every distinct state the LSM invariants are evaluated through the private members: levels strictly sorted, buffer and level capacities, no data beyond used_levels, every non-empty level at or above the index level owns an index with n == level size, first_key == first item and answering the search contract for all level keys and all alphabet queries, emptied levels own a reset index.',
         'Private members read with -fno-access-control (no hook needed).', '4/C15'),
 'C07': ('search', 'bounded-exhaustive input x query enumeration with routing hook H3; brute-force rightmost-segment oracle per level',
         'For every explored index with EpsilonRecursive>0 and every query, the per-level routing record (predicted position, scan start, chosen segment) is compared with a brute-force scan of the level: chosen is the rightmost segment <= key, within EpsilonRecursive+1 of the prediction, at most 2R+3 segments inspected; level sizes obey floor(m/(2R+1))+c(+1 closing segment).',
         'Hook H3 (PGM_INDEX_VERIF_ROUTE) in segment_for_key; level-size bound allows +1 for the closing segment appended by build().', '4/C07'),
 'C08': ('search', 'bounded-exhaustive input x query enumeration on the real CompressedPGMIndex, std::lower_bound oracle',
         'As C01+C02 for CompressedPGMIndex over unsigned keys of 8..64 bits, EpsilonRecursive 0, small, and above the linear-scan threshold; additionally intercepts of every level strictly increasing.',
         'As C01.', '4/C08'),
 'C09': ('search', 'bounded-exhaustive input x query enumeration on the real BucketingPGMIndex, std::lower_bound + brute-force segment oracle',
         'As C01+C02 for BucketingPGMIndex (power-of-two and other top-level sizes, dynamic and fixed cell widths); queries outside [first,last] must give the empty ranges; segment_for_key must return the rightmost segment <= key; bucket table monotone.',
         'As C01.', '4/C09'),
 'C10': ('search', 'bounded-exhaustive input x query enumeration on the real EliasFanoPGMIndex, std::lower_bound + reference-predecessor oracle',
         'As C01+C02 for EliasFanoPGMIndex; pred() is compared for every query with the rightmost segment key of a reference one-level PGMIndex built on the same data.',
         'As C01.', '4/C10'),
}

NOT_APPLICABLE = [
]

def main():
    checks = []
    for pid in sorted(CHECKS):
        eng, tech, text, note, ref = CHECKS[pid]
        checks.append({
            'property_id': pid,
            'quick_cmd': 'scripts/check.sh %s quick' % pid,
            'thorough_cmd': 'scripts/check.sh %s thorough' % pid,
            'evidence_file': 'evidence/%s.json' % pid,
            'replay_cmd_template': 'scripts/replay.sh {path}',
            'engine': eng,
            'level_claimed': {'category': 'model_checking', 'text': text, 'design_ref': 'DESIGN.md section ' + ref},
            'level_note': note,
            'technique': tech,
        })
    props = [json.loads(l)['id'] for l in open(os.path.join(root, 'properties.jsonl'))]
    na = list(NOT_APPLICABLE)
    claimed = set(CHECKS)
    listed = {e['property_id'] for e in na}
    for p in props:
        if p not in claimed and p not in listed:
            na.append({'property_id': p, 'reason': 'check not built yet in this revision (work in progress; see DESIGN.md section 4 for the planned bounded-exhaustive exploration)'})
    hooks_commits = subprocess.run(['git', '-C', '/repo', 'log', '--format=%H', '--grep=verif hook'], capture_output=True, text=True).stdout.split()
    m = {
        'version': 1,
        'setup_cmd': 'scripts/setup.sh',
        'hooks': {
            'guard': 'PGM_INDEX_VERIF',
            'enable': 'engines are compiled from /repo/include with -DPGM_INDEX_VERIF and define the PGM_INDEX_VERIF_* macros before including the headers',
            'baseline_off_cmd': 'scripts/baseline_off.sh',
            'source_commits': hooks_commits,
            'add_only': True,
        },
        'engines': [
            {'name': 'search', 'path': 'engines/search_main.cpp', 'serves_properties': ['C01', 'C02', 'C07', 'C08', 'C09', 'C10'],
             'kind_free_text': 'bounded-exhaustive enumeration of sorted inputs x queries on the real static indexes, forked workers with crash capture'},
            {'name': 'dynamic', 'path': 'engines/dynamic.cpp', 'serves_properties': ['C05', 'C06', 'C15'],
             'kind_free_text': 'explicit-state BFS over update histories on the real DynamicPGMIndex with canonical-state hashing and std::map reference'},
            {'name': 'multidim', 'path': 'engines/multidim.cpp', 'serves_properties': ['C13', 'C14'],
             'kind_free_text': 'bounded-exhaustive enumeration of point multisets and boxes on the real MultidimensionalPGMIndex'},
            {'name': 'mapped', 'path': 'engines/mapped.cpp', 'serves_properties': ['C11', 'C12'],
             'kind_free_text': 'bounded-exhaustive enumeration of inputs and file-lifecycle histories on the real MappedPGMIndex'},
            {'name': 'cabi', 'path': 'engines/cabi.cpp', 'serves_properties': ['C18'],
             'kind_free_text': 'bounded-exhaustive enumeration of inputs and call histories through the C interface'},
            {'name': 'copymove', 'path': 'engines/copymove.cpp', 'serves_properties': ['C19'],
             'kind_free_text': 'exhaustive value-semantics histories under AddressSanitizer'},
            {'name': 'reject', 'path': 'engines/reject.cpp', 'serves_properties': ['C20'],
             'kind_free_text': 'exhaustive enumeration of invalid inputs and their valid neighbours'},
            {'name': 'conc', 'path': 'engines/conc_main.cpp', 'serves_properties': ['C16'],
             'kind_free_text': 'access monitor + preemption-bounded schedule explorer over a hand-off scheduler (mc/vrt.cpp), zoo compiled with clang TSan instrumentation'},
            {'name': 'memsafe', 'path': 'scripts/check_c17.py', 'serves_properties': ['C17'],
             'kind_free_text': 'AddressSanitizer builds of the other engines over their corpora, memory-only verdicts'},
            {'name': 'segmentation', 'path': 'engines/segmentation.cpp', 'serves_properties': ['C03', 'C04'],
             'kind_free_text': 'bounded-exhaustive enumeration of inputs to the piecewise-linear builder with hook H1 and exact rational oracles'},
        ],
        'checks': checks,
        'not_applicable': na,
        'notes': 'All checks explore a bounded space exhaustively on the real code compiled from /repo (model-checking family: exhaustive enumeration of inputs, operation histories and schedules within stated bounds). known_findings.json lists genuine defects (all repaired by fix: commits so far); KNOWN_FINDINGS.txt holds the same entries as lines "fixed: property=<id> <commit> <what failed>" (scripts/known.py list).',
    }
    json.dump(m, open(os.path.join(root, 'MANIFEST.json'), 'w'), indent=1)
    # validate
    try:
        import jsonschema
    except ImportError:
        print('jsonschema not available; skipped validation'); return
    schema = json.load(open('/root/.vp/MANIFEST.schema.json'))
    jsonschema.validate(m, schema)
    es = json.load(open('/root/.vp/EVIDENCE.schema.json'))
    evdir = os.path.join(root, 'evidence')
    if os.path.isdir(evdir):
        for f in sorted(os.listdir(evdir)):
            if f.endswith('.json'):
                jsonschema.validate(json.load(open(os.path.join(evdir, f))), es)
                print('evidence ok:', f)
    print('MANIFEST.json valid: %d checks, %d not_applicable' % (len(checks), len(na)))

if __name__ == '__main__':
    main()
