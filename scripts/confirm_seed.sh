#!/bin/bash
# usage: scripts/confirm_seed.sh <property> <letter> <patch.diff> <demo.cpp> [extra compile args]
# Confirms a seeded change independently in a scratch worktree: it applies, the repository's 45 tests still pass with it,
# the demonstration passes on the unchanged tree and fails with the change. Writes seeded/<prop>_<letter>/{patch.diff,demo.cpp,confirm.json}.
set -u
prop=$1; letter=$2; patch=$3; demo=$4; shift 4; extra="$*"
V=$(cd "$(dirname "$0")/.." && pwd)
id=${prop}_${letter}
out=$V/seeded/$id
mkdir -p "$out"
cp "$patch" "$out/patch.diff"; cp "$demo" "$out/demo.cpp"
W=/tmp/seedconfirm_$id
rm -rf "$W"; flock /tmp/verif_worktree.lock git -C /repo worktree prune; flock /tmp/verif_worktree.lock git -C /repo worktree add -q "$W" HEAD || exit 2
cd "$W"
demo_flags="-std=gnu++17 -O2 -march=native -fopenmp -I$W/include $extra"
g++ $demo_flags "$out/demo.cpp" -o "$W/demo_orig" -w > "$W/demo_orig.build.log" 2>&1
( cd "$W" && timeout 600 ./demo_orig > "$W/demo_orig.log" 2>&1 ); rc_orig=$?
if ! git apply "$out/patch.diff"; then echo "{\"id\":\"$id\",\"applies\":false}" > "$out/confirm.json"; cd /; flock /tmp/verif_worktree.lock git -C /repo worktree remove --force "$W"; exit 1; fi
g++ $demo_flags "$out/demo.cpp" -o "$W/demo_mut" -w > "$W/demo_mut.build.log" 2>&1
( cd "$W" && timeout 600 ./demo_mut > "$W/demo_mut.log" 2>&1 ); rc_mut=$?
cmake -G Ninja -B "$W/_build" -S "$W" -DCMAKE_BUILD_TYPE=RelWithDebInfo -DBUILD_EXAMPLES=OFF -DBUILD_PGM_TUNER=OFF -DBUILD_PGM_BENCHMARK=OFF > /dev/null 2>&1
cmake --build "$W/_build" --target tests -j4 > "$W/suite.build.log" 2>&1; rc_build=$?
suite="not run"
if [ $rc_build -eq 0 ]; then suite=$(timeout 3000 "$W/_build/test/tests" 2>&1 | tail -3 | tr '\n' ' '); fi
python3 - "$out/confirm.json" "$id" "$rc_orig" "$rc_mut" "$rc_build" "$suite" "$(tail -c 300 $W/demo_orig.log | tr '\n' ' ')" "$(tail -c 400 $W/demo_mut.log | tr '\n' ' ')" <<'PY'
import json,sys
out,idv,rc_orig,rc_mut,rc_build,suite,lo,lm=sys.argv[1:9]
json.dump({"id":idv,"applies":True,"demo_on_unchanged_tree_exit":int(rc_orig),"demo_with_change_exit":int(rc_mut),"suite_build_exit":int(rc_build),
           "suite_with_change":suite.strip(),"suite_passes_with_change":"All tests passed" in suite and "45 test cases" in suite,
           "demo_unchanged_tail":lo.strip(),"demo_changed_tail":lm.strip()},open(out,'w'),indent=1)
PY
cd /; flock /tmp/verif_worktree.lock git -C /repo worktree remove --force "$W"; rm -rf "$W"
cat "$out/confirm.json" | head -12
