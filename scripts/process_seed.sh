#!/bin/bash
# usage: scripts/process_seed.sh <property> <agent letter A|B> <new letter> <agent output dir> [extra demo compile args]
# confirms the agent's mutant independently and runs the owning quick check against it
prop=$1; al=$2; nl=$3; dir=$4; shift 4
cd "$(dirname "$0")/.."
./scripts/confirm_seed.sh "$prop" "$nl" "$dir/mutant_$al.diff" "$dir/demo_$al.cpp" "$@" > "/tmp/mut/confirm_${prop}_$nl.log" 2>&1
./scripts/run_seeded.sh "${prop}_$nl"
