#!/usr/bin/env python3
"""Writes seeded/<id>/meta.json for every seeded change and seeded/SUMMARY.md from confirm.json / verdict.json."""
import json, os
root = os.path.dirname(os.path.dirname(os.path.abspath(__file__)))
S = os.path.join(root, 'seeded')
META = {
 'C01_A': ('make_segmentation_par: last chunk no longer absorbs the n % threads remainder keys (and the closing point)', 'chunked build (n >= 2^15, >= 2 threads), n not a multiple of the thread count, small Epsilon, a tail that does not follow the trend of the last segment'),
 'C01_B': ('segment_for_key binary-search branch: exclusive end of the window one too small', 'EpsilonRecursive above the linear-scan threshold (>= 33), a level larger than the window, a key whose upper-level prediction sits at the negative extreme'),
 'C02_A': ('chunk-end duplicate handling drops the case of a run ending exactly on the last element of a chunk', 'chunked build, duplicate run ending at index k*(n/p)-1, gap after it, absent query in the gap'),
 'C02_B': ('Segment::operator() uses the overflow-safe unsigned subtraction only for int64, not int32', 'int32 keys, one segment spanning more than 2^31, query in its upper part'),
 'C03_A': ('integer intercept rounding term computed with >> 1 instead of / 2 (floors negative values)', 'integer keys, epsilon >= 1, odd key distance between the two anchor points, anchor not the first key'),
 'C03_B': ('make_segmentation_par skips a chunk consisting of duplicates of the previous key plus exactly one fresh key', 'chunked build, duplicate run that starts before a chunk and ends one element before that chunk ends'),
 'C04_A': ('add_point rejects a point whose lower band end lies exactly on the maximum-slope line (> became >=)', 'exact rational tangency of three points: tiny dense key universes, small epsilon'),
 'C04_B': ('chunking decided by chunk_size < 2^11 instead of n < 2^15', '2..15 threads and 2048*t <= n < 2^15: the build is split although the property says c = 1'),
 'C05_A': ('merge(): tombstone test looks at the older item (first2) instead of the newer one', 'a key erased, its tombstone merged into the deepest level without meeting an older version, then re-inserted and merged into the same deepest level without a new level being created'),
 'C05_B': ('lower_bound(): per-level scan stops at the end of the index window instead of the level end', 'a level that owns a PGM-index (low index_level) and a run of tombstones longer than the window'),
 'C06_A': ('range(): the upper-endpoint window is computed from lo instead of hi', 'an indexed level and a range wider than the epsilon window inside that level'),
 'C06_B': ('pairwise_merge(): tombstones dropped at the deepest level of each cascade (i == merge_limit) instead of the last level', 'key overwritten and flushed to an intermediate level, erased, then a cascade that stops above the deep level that still holds the oldest version'),
 'C07_A': ('Segment::operator(): int32 keys lose the overflow-safe subtraction', 'int32 keys, EpsilonRecursive > 0, keys spanning more than 2^31, several levels'),
 'C07_B': ('segment_for_key binary-search branch computes hi with Epsilon instead of EpsilonRecursive', 'EpsilonRecursive above the threshold and different from Epsilon, level larger than the window'),
 'C08_A': ('CompressedPGMIndex builds its upper levels with the chunked builder', '>= 2^15 bottom segments, > 1 thread, EpsilonRecursive > 0, a short (one-point) segment at a chunk boundary of the upper level and a model error that uses the band'),
 'C08_B': ('CompressedPGMIndex::search binary-search window one too small', 'EpsilonRecursive above the threshold, level with more than ER+2 segments, a segment under-predicted by exactly ER+1'),
 'C09_A': ('build_top_level: bucket boundary i*step computed without the overflow check', 'uint64 keys whose range reaches the last top-level bucket (product wraps around 2^64)'),
 'C09_B': ('BucketingPGMIndex::search caps the position by n-1 instead of the next segment intercept', 'absent query in a wide gap after a dense run'),
 'C10_A': ('sdsl bits::prev: backward scan for the previous set bit skips at most one all-zero word', 'Elias-Fano high vector with a run of >= 128 empty buckets followed by more segments; query in the gap'),
 'C10_B': ('pred() shortcut for the last element derives the high part from ef.size() >> wl', '(last segment key - first key + 1) a multiple of 2^wl and a real last segment'),
 'C11_A': ('MappedPGMIndex::upper_bound gallop guard it+step+1 < end()', 'query = last key, duplicate run ending at n and longer than the search range, n-1-hi a power of two'),
 'C11_B': ('chunk-boundary successor point gets rank end-1 instead of run_end-1 (ported to HEAD after fix f91fd6c)', 'chunked build, duplicate run straddling a chunk boundary by more than Epsilon+2, absent query in the gap after it'),
 'C12_A': ('raw-file constructor: first_key passes through a double (ternary with 0.)', '64-bit keys beyond 2^53 not representable as double, raw-file construction path'),
 'C12_B': ('raw-file constructor builds the bottom level with max(Epsilon, EpsilonRecursive)', 'Epsilon < EpsilonRecursive and the raw-file path'),
 'C13_A': ('RangeIterator::advance repositions with upper_bound(bigmin) (reverts fix 8450c30)', '>= 65 consecutive out-of-box points inside the Morton interval followed by a stored point exactly on the re-entry cell'),
 'C13_B': ('miss_threshold = 4*Epsilon together with an int8_t miss counter', 'Epsilon in 32..64 and a cumulative miss count of 255 mod 256 when an in-box point is reached'),
 'C14_A': ('contains(): query code clamped to data.front() and comparison on the encoded value (two cooperating edits)', 'absent point whose Morton code is below every stored code'),
 'C14_B': ('contains(): lower_bound(zp) rewritten as upper_bound(zp - 1)', 'the origin (code 0) stored at most Epsilon+2 times'),
 'C15_A': ('pairwise_merge(): the index of an emptied level is reset only for levels >= max_fully_allocated_level', 'index_level <= buffer_level+1 and a level that was filled and then merged upward'),
 'C15_B': ('insert(): slots_required does not count the entry being inserted (two cooperating edits)', 'a buffer flush that exactly fills the free room of a level with all keys distinct'),
 'C16_A': ('EliasFanoPGMIndex::pred caches the last element in two mutable members, flag stored before the value', 'two threads querying keys at/after the last segment key on a fresh object'),
 'C16_B': ('DynamicPGMIndex::lower_bound uses a mutable member std::set as scratch', 'two threads whose lower_bound/begin scans cross a tombstone'),
 'C17_A': ('RangeIterator::advance loses the it != end() guard (reverts fix f7ed095)', 'a box query reaching or lying above the last stored point'),
 'C17_B': ('chunk-end duplicate handling reads in(run_end) with run_end == n (ported to HEAD after fix f91fd6c)', 'chunked build, non-last chunk, duplicate run reaching the very end of the input, vector with capacity == size'),
 'C18_A': ('PGMWrapper::search clamps the position to n instead of the next segment intercept', 'absent query inside a large gap after a sloped segment'),
 'C18_B': ('DynamicPGMIndex::lower_bound scan cut at the index window (same edit as C05_B)', 'through the C API only with > 8^7 pairs (default index level) and > 34 consecutive erased keys'),
 'C19_A': ('CompressedLevel::operator= forgets intercept_offset', 'copy-assignment over an already built index with a different first intercept'),
 'C19_B': ('sd_vector copy constructor does not re-target m_high_0_select', 'copy construction of an EliasFanoPGMIndex, source destroyed or overwritten, key below the last segment key'),
 'C20_A': ('add_point: last_x not updated by the second point of a segment', 'the violating key is exactly the third point of a segment and still larger than its first key'),
 'C20_B': ('bulk-load constructor assigns item fields directly, bypassing the reserved-value check', 'reserved mapped value at position >= 1 of the bulk-load range'),
}
rows = []
for sid in sorted(os.listdir(S)):
    d = os.path.join(S, sid)
    if not os.path.isdir(d): continue
    conf = json.load(open(os.path.join(d, 'confirm.json'))) if os.path.exists(os.path.join(d, 'confirm.json')) else {}
    verd = json.load(open(os.path.join(d, 'verdict.json'))) if os.path.exists(os.path.join(d, 'verdict.json')) else {}
    what, needs = META.get(sid, ('(see patch.diff)', '(see the agent README)'))
    prop = sid.split('_')[0]
    meta = {
        'id': sid, 'breaks_property': prop, 'change': what, 'needs_to_manifest': needs,
        'origin': 'fresh sub-agent given only the property text and a scratch worktree of /repo (nothing from /verif)',
        'confirmed_by': 'scripts/confirm_seed.sh in a scratch worktree of /repo HEAD: patch applies, the 45 repository tests pass with it, demo.cpp exits 0 on the unchanged tree and non-zero with the change',
        'confirmation': conf,
        'checks_run': 'scripts/run_seeded.sh %s (scratch worktree + own build directory; /repo untouched)' % sid,
        'verdicts': verd,
    }
    json.dump(meta, open(os.path.join(d, 'meta.json'), 'w'), indent=1)
    ok_conf = conf.get('applies') and conf.get('suite_passes_with_change') and conf.get('demo_on_unchanged_tree_exit') == 0 and conf.get('demo_with_change_exit') not in (0, None)
    caught = [p for p, v in verd.items() if v.get('exit') == 1]
    missed = [p for p, v in verd.items() if v.get('exit') == 0]
    rows.append((sid, 'yes' if ok_conf else 'NO', ', '.join('%s (%s, %ss)' % (p, verd[p]['tier'], verd[p]['seconds']) for p in caught) or '-', ', '.join(missed) or '-', what))
with open(os.path.join(S, 'SUMMARY.md'), 'w') as f:
    f.write('# Seeded changes and the checks that catch them\n\nGenerated by scripts/seed_meta.py from confirm.json / verdict.json (final state of the checks; the history of misses and the strengthening they led to is in DESIGN.md section 6).\n\n')
    f.write('| seed | independently confirmed | caught by | not caught by | change |\n|---|---|---|---|---|\n')
    for r in rows: f.write('| %s | %s | %s | %s | %s |\n' % r)
print('%d seeds, %d confirmed, %d caught by at least one check' % (len(rows), sum(r[1] == 'yes' for r in rows), sum(r[2] != '-' for r in rows)))
