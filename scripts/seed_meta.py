#!/usr/bin/env python3
"""Writes seeded/<id>/meta.json for every seeded change and seeded/SUMMARY.md from confirm.json / verdict.json."""
import json, os
root = os.path.dirname(os.path.dirname(os.path.abspath(__file__)))
S = os.path.join(root, 'seeded')
META = {
 'C01_A': ('make_segmentation_par: last chunk no longer absorbs the n % threads remainder keys (and the closing point)', 'chunked build (n >= 2^15, >= 2 threads), n not a multiple of the thread count, small Epsilon, a tail that does not follow the trend of the last segment'),
 'C01_B': ('segment_for_key binary-search branch: exclusive end of the window one too small', 'EpsilonRecursive above the linear-scan threshold (>= 33), a level larger than the window, a key whose upper-level prediction sits at the negative extreme'),
 'C02_A': ('chunk-end duplicate handling drops the case of a run ending exactly on the last element of a chunk', 'chunked build, duplicate run ending at index k*(n/p)-1, gap after it, absent query in the gap'),
 'C02_B': ('Segment::operator() uses the overflow-safe unsigned subtraction only for int64, not int32', 'int32 keys, one segment spanning more than 2^31, query in its upper part'),
 'C03_A': ('integer intercept rounding term computed with >> 1 instead of / 2 (floors negative values)', 'integer keys, epsilon >= 1, odd key distance between the two anchor points, anchor not the first key'),
 'C03_B': ('make_segmentation_par skips a chunk consisting of duplicates of the previous key plus exactly one fresh key', 'chunked build, duplicate run that starts before a chunk and ends one element before that chunk ends'),
 'C04_A': ('add_point rejects a point whose lower band end lies exactly on the maximum-slope line (> became >=)', 'exact rational tangency of three points: tiny dense key universes, small epsilon'),
 'C04_B': ('chunking decided by chunk_size < 2^11 instead of n < 2^15', '2..15 threads and 2048*t <= n < 2^15: the build is split although the property says c = 1'),
 'C05_A': ('merge(): tombstone test looks at the older item (first2) instead of the newer one', 'a key erased, its tombstone merged into the deepest level without meeting an older version, then re-inserted and merged into the same deepest level without a new level being created'),
 'C05_B': ('lower_bound(): per-level scan stops at the end of the index window instead of the level end', 'a level that owns a PGM-index (low index_level) and a run of tombstones longer than the window'),
 'C06_A': ('range(): the upper-endpoint window is computed from lo instead of hi', 'an indexed level and a range wider than the epsilon window inside that level'),
 'C06_B': ('pairwise_merge(): tombstones dropped at the deepest level of each cascade (i == merge_limit) instead of the last level', 'key overwritten and flushed to an intermediate level, erased, then a cascade that stops above the deep level that still holds the oldest version'),
 'C07_A': ('Segment::operator(): int32 keys lose the overflow-safe subtraction', 'int32 keys, EpsilonRecursive > 0, keys spanning more than 2^31, several levels'),
 'C07_B': ('segment_for_key binary-search branch computes hi with Epsilon instead of EpsilonRecursive', 'EpsilonRecursive above the threshold and different from Epsilon, level larger than the window'),
 'C08_A': ('CompressedPGMIndex builds its upper levels with the chunked builder', '>= 2^15 bottom segments, > 1 thread, EpsilonRecursive > 0, a short (one-point) segment at a chunk boundary of the upper level and a model error that uses the band'),
 'C08_B': ('CompressedPGMIndex::search binary-search window one too small', 'EpsilonRecursive above the threshold, level with more than ER+2 segments, a segment under-predicted by exactly ER+1'),
 'C09_A': ('build_top_level: bucket boundary i*step computed without the overflow check', 'uint64 keys whose range reaches the last top-level bucket (product wraps around 2^64)'),
 'C09_B': ('BucketingPGMIndex::search caps the position by n-1 instead of the next segment intercept', 'absent query in a wide gap after a dense run'),
 'C10_A': ('sdsl bits::prev: backward scan for the previous set bit skips at most one all-zero word', 'Elias-Fano high vector with a run of >= 128 empty buckets followed by more segments; query in the gap'),
 'C10_B': ('pred() shortcut for the last element derives the high part from ef.size() >> wl', '(last segment key - first key + 1) a multiple of 2^wl and a real last segment'),
 'C11_A': ('MappedPGMIndex::upper_bound gallop guard it+step+1 < end()', 'query = last key, duplicate run ending at n and longer than the search range, n-1-hi a power of two'),
 'C11_B': ('chunk-boundary successor point gets rank end-1 instead of run_end-1 (ported to HEAD after fix f91fd6c)', 'chunked build, duplicate run straddling a chunk boundary by more than Epsilon+2, absent query in the gap after it'),
 'C12_A': ('raw-file constructor: first_key passes through a double (ternary with 0.)', '64-bit keys beyond 2^53 not representable as double, raw-file construction path'),
 'C12_B': ('raw-file constructor builds the bottom level with max(Epsilon, EpsilonRecursive)', 'Epsilon < EpsilonRecursive and the raw-file path'),
 'C13_A': ('RangeIterator::advance repositions with upper_bound(bigmin) (reverts fix 8450c30)', '>= 65 consecutive out-of-box points inside the Morton interval followed by a stored point exactly on the re-entry cell'),
 'C13_B': ('miss_threshold = 4*Epsilon together with an int8_t miss counter', 'Epsilon in 32..64 and a cumulative miss count of 255 mod 256 when an in-box point is reached'),
 'C14_A': ('contains(): query code clamped to data.front() and comparison on the encoded value (two cooperating edits)', 'absent point whose Morton code is below every stored code'),
 'C14_B': ('contains(): lower_bound(zp) rewritten as upper_bound(zp - 1)', 'the origin (code 0) stored at most Epsilon+2 times'),
 'C15_A': ('pairwise_merge(): the index of an emptied level is reset only for levels >= max_fully_allocated_level', 'index_level <= buffer_level+1 and a level that was filled and then merged upward'),
 'C15_B': ('insert(): slots_required does not count the entry being inserted (two cooperating edits)', 'a buffer flush that exactly fills the free room of a level with all keys distinct'),
 'C16_A': ('EliasFanoPGMIndex::pred caches the last element in two mutable members, flag stored before the value', 'two threads querying keys at/after the last segment key on a fresh object'),
 'C16_B': ('DynamicPGMIndex::lower_bound uses a mutable member std::set as scratch', 'two threads whose lower_bound/begin scans cross a tombstone'),
 'C17_A': ('RangeIterator::advance loses the it != end() guard (reverts fix f7ed095)', 'a box query reaching or lying above the last stored point'),
 'C17_B': ('chunk-end duplicate handling reads in(run_end) with run_end == n (ported to HEAD after fix f91fd6c)', 'chunked build, non-last chunk, duplicate run reaching the very end of the input, vector with capacity == size'),
 'C18_A': ('PGMWrapper::search clamps the position to n instead of the next segment intercept', 'absent query inside a large gap after a sloped segment'),
 'C18_B': ('DynamicPGMIndex::lower_bound scan cut at the index window (same edit as C05_B)', 'through the C API only with > 8^7 pairs (default index level) and > 34 consecutive erased keys'),
 'C19_A': ('CompressedLevel::operator= forgets intercept_offset', 'copy-assignment over an already built index with a different first intercept'),
 'C19_B': ('sd_vector copy constructor does not re-target m_high_0_select', 'copy construction of an EliasFanoPGMIndex, source destroyed or overwritten, key below the last segment key'),
 'C20_A': ('add_point: last_x not updated by the second point of a segment', 'the violating key is exactly the third point of a segment and still larger than its first key'),
 'C20_B': ('bulk-load constructor assigns item fields directly, bypassing the reserved-value check', 'reserved mapped value at position >= 1 of the bulk-load range'),
# ---- round 2 (letters C, D): agents were told the round-1 ideas and asked for different sites and triggers
 'C01_C': ('segment_for_key: scan window starts at pos-(Epsilon+1) instead of pos-(EpsilonRecursive+1)', 'Epsilon < EpsilonRecursive, >= 2 levels, upper-level overshoot larger than Epsilon+1'),
 'C01_D': ('Segment::operator(): slope*(double(k)-double(key)) instead of the exact integer difference', '64-bit keys above 2^53 that are dense relative to the spacing of doubles'),
 'C02_C': ('segment_for_key binary-search branch: window end computed with Epsilon (same site as C07_B)', 'EpsilonRecursive above the threshold, Epsilon < EpsilonRecursive, many segments per level'),
 'C02_D': ('make_segmentation_par: last chunk no longer absorbs the remainder (same edit as C01_A)', 'chunked build, n % threads > Epsilon, tail keys off the trend'),
 'C03_C': ('integer intercept: key difference taken in the key type before widening (wraps for signed keys)', 'int32/int64 keys and one segment whose anchor is more than half the type range from its first key'),
 'C03_D': ('make_segmentation_par: last chunk no longer absorbs the remainder (same edit as C01_A)', 'chunked build, n % chunks != 0, tail off the trend'),
 'C04_C': ('build(): <= instead of < appends a redundant twin of the closing segment', 'the closing point forms a segment of its own; twin segment with the same key'),
 'C04_D': ('build(): upper levels segmented with min(Epsilon, EpsilonRecursive)', 'EpsilonRecursive > Epsilon and at least two levels'),
 'C05_C': ('pairwise_merge(): can_delete_permanently hoisted out of the loop as target == used_levels-1', 'three versions of a key on three levels and a cascade that ends at the deepest level'),
 'C05_D': ('lower_bound(): tombstones are recorded only while no candidate is held', 'live candidate from a newer level, tombstone on a middle level, stale copy deeper'),
 'C06_C': ('lower_bound(): scan bounded by the index window (same edit as C05_B)', 'indexed level and a tombstone run longer than the window; begin/size/empty build on it'),
 'C06_D': ('merge(): tombstone flag of the wrong operand (same edit as C05_A)', 'erase, flush into the existing last level, re-insert, flush again'),
 'C07_C': ('segment_for_key: std::min<uint32_t> makes a saturated prediction + intercept wrap', 'query in a huge gap after a dense region so that slope*distance >= 2^32 on an upper level, responsible segment not the first of its level'),
 'C07_D': ('c-interface PGMWrapper::search routes the unclamped key', 'C API only, queries strictly below the smallest key'),
 'C08_C': ('CompressedPGMIndex constructor: root_range read from the wrong level (always 1)', 'EpsilonRecursive above the threshold and more than EpsilonRecursive+3 segments below the root'),
 'C08_D': ('CompressedLevel::operator(): key difference computed in int64_t', 'uint64 keys, query >= 2^63 above its segment first key'),
 'C09_C': ('build_top_level: cell width BIT_WIDTH(segments.size()-1)', 'TopLevelBitSize = 0, segment vector length exactly 2^m, two segments in the last bucket'),
 'C09_D': ('build_top_level: power-of-two table one cell short', 'power-of-two TopLevelSize, key range an exact multiple of the bucket width, query for the last key'),
 'C10_C': ('sdsl select_support_mcl::init_fast: long-block width one bit too narrow', '>= 41k segments, dense cluster spanning a thousand buckets plus far outliers'),
 'C10_D': ('sdsl select_support_mcl::init_slow: sample loop j < instead of j <=', 'number of buckets or of segment keys congruent to 1 modulo 64'),
 'C11_C': ('segment_for_key binary-search branch: window end with Epsilon (same site as C07_B), shown through MappedPGMIndex', 'EpsilonRecursive above the threshold, Epsilon < EpsilonRecursive, irregular keys'),
 'C11_D': ('make_segmentation: successor-point guard in(i)+2 < in(i+1)', 'duplicate run longer than 2*Epsilon followed by x+2, query x+1'),
 'C12_C': ('#pragma pack(4) for PGMIndex::Segment: padding bytes for keys narrower than 4 bytes', 'int16 keys: the two construction paths write different (uninitialised) padding bytes'),
 'C12_D': ('raw-file constructor unmaps the input with file_bytes instead of in_bytes', 'raw input whose size is a multiple of the page size (or within header_bytes of it) and another container mapped just above'),
 'C13_C': ('RangeIterator::advance: loop condition *it < zmax', 'a stored point exactly on the max corner of the box'),
 'C13_D': ('bigmin(): loop stops before bit 0', '> 64 misses, the 65th at the cell left of an odd box minimum'),
 'C14_C': ('make_segmentation_par: last chunk no longer absorbs the remainder (same edit as C01_A), shown through contains()', '> 2^15 points, chunked build, n % chunks > Epsilon, far tail codes'),
 'C14_D': ('build(): upper levels only while last_n > 2', 'exactly two bottom segments and EpsilonRecursive > 0'),
 'C15_C': ('insert(): in-place overwrite only when the buffer has room', 'buffer exactly full and an update of a key already in it: duplicate keys in a level'),
 'C15_D': ('bulk-load constructor picks the level from ceil_log_base(n-1)', 'bulk-load of exactly base^L + 1 keys'),
 'C16_C': ('DynamicPGMIndex: index of the bulk-loaded level built lazily by the const accessor', 'freshly bulk-loaded container whose level owns an index, first queries concurrent'),
 'C16_D': ('MappedPGMIndex::upper_bound keeps a mutable step hint', 'duplicate run longer than the search window'),
 'C17_C': ('BucketingPGMIndex::build_top_level: operands of && swapped (reads segments[k] before the bound check)', 'keys spanning the key universe so that the bucket boundary overflows, n = 2 or 3'),
 'C17_D': ('DynamicPGMIndex::insert keeps a reference into levels across emplace_back', 'default-constructed container at the first insert that overflows the buffer into a new level'),
 'C18_C': ('pairwise_merge(): can_delete_permanently = i == target', 'three copies of a key on three levels with the default parameters (5000 bulk pairs, two buffer flushes)'),
 'C18_D': ('Iterator::advance: duplicates skipped only while unconsumed_count > 1', 'two non-empty levels, overwritten/erased key at least as large as every key outside the level of its old copy'),
 'C19_C': ('sdsl select_support_mcl move-assignment keeps its own long superblocks when the source has none', 'assignment of a small index over one whose select structures use long superblocks (>= ~130k segments, skewed)'),
 'C19_D': ('sdsl int_vector copy constructor resizes to capacity()', 'copy-constructed EliasFanoPGMIndex whose low vector has spare capacity; query at/after the last segment key'),
 'C20_C': ('reserved-key check moved from build() into the sequential make_segmentation overload', 'chunked construction (n >= 2^15, > 1 thread) over data ending in the reserved key'),
 'C20_D': ('DynamicPGMIndex::range returns early on an empty container before checking lo > hi', 'container without live elements'),
 'R_D5': ('reverts fix 621ba75 (regression seed, not from a sub-agent)', 'EpsilonRecursive above the CompressedPGMIndex linear threshold'),
}
rows = []
for sid in sorted(os.listdir(S)):
    d = os.path.join(S, sid)
    if not os.path.isdir(d): continue
    conf = json.load(open(os.path.join(d, 'confirm.json'))) if os.path.exists(os.path.join(d, 'confirm.json')) else {}
    verd = json.load(open(os.path.join(d, 'verdict.json'))) if os.path.exists(os.path.join(d, 'verdict.json')) else {}
    what, needs = META.get(sid, ('(see patch.diff)', '(see the agent README)'))
    prop = sid.split('_')[0]
    meta = {
        'id': sid, 'breaks_property': prop, 'change': what, 'needs_to_manifest': needs,
        'origin': 'fresh sub-agent given only the property text and a scratch worktree of /repo (nothing from /verif)',
        'confirmed_by': 'scripts/confirm_seed.sh in a scratch worktree of /repo HEAD: patch applies, the 45 repository tests pass with it, demo.cpp exits 0 on the unchanged tree and non-zero with the change',
        'confirmation': conf,
        'checks_run': 'scripts/run_seeded.sh %s (scratch worktree + own build directory; /repo untouched)' % sid,
        'verdicts': verd,
    }
    json.dump(meta, open(os.path.join(d, 'meta.json'), 'w'), indent=1)
    ok_conf = conf.get('applies') and conf.get('suite_passes_with_change') and conf.get('demo_on_unchanged_tree_exit') == 0 and conf.get('demo_with_change_exit') not in (0, None)
    caught = [p for p, v in verd.items() if v.get('exit') == 1]
    missed = [p for p, v in verd.items() if v.get('exit') == 0]
    rows.append((sid, 'yes' if ok_conf else 'NO', ', '.join('%s (%s, %ss)' % (p, verd[p]['tier'], verd[p]['seconds']) for p in caught) or '-', ', '.join(missed) or '-', what))
with open(os.path.join(S, 'SUMMARY.md'), 'w') as f:
    f.write('# Seeded changes and the checks that catch them\n\nGenerated by scripts/seed_meta.py from confirm.json / verdict.json (final state of the checks; the history of misses and the strengthening they led to is in DESIGN.md section 6).\n\n')
    f.write('| seed | independently confirmed | caught by | not caught by | change |\n|---|---|---|---|---|\n')
    for r in rows: f.write('| %s | %s | %s | %s | %s |\n' % r)
print('%d seeds, %d confirmed, %d caught by at least one check' % (len(rows), sum(r[1] == 'yes' for r in rows), sum(r[2] != '-' for r in rows)))
