#!/bin/bash
# Touches <build>/repo.stamp whenever the content of the repository sources the engines are compiled from has changed.
set -e
cd "$(dirname "$0")/.."
REPO="${VERIF_REPO:-/repo}"
B="${VERIF_BUILD:-build}"
mkdir -p "$B"
h=$(cd "$REPO" && cat include/pgm/*.hpp c-interface/cpgm.cpp c-interface/cpgm.h | sha256sum | cut -d' ' -f1)
h="$h $REPO"
if [ ! -f "$B/repo.hash" ] || [ "$(cat "$B/repo.hash")" != "$h" ] || [ ! -f "$B/repo.stamp" ]; then
  echo "$h" > "$B/repo.hash"
  touch "$B/repo.stamp"
fi
