#!/bin/bash
# Touches build/repo.stamp whenever the content of the repository sources the engines are compiled from has changed.
set -e
cd "$(dirname "$0")/.."
REPO="${VERIF_REPO:-/repo}"
mkdir -p build
h=$(cd "$REPO" && cat include/pgm/*.hpp c-interface/cpgm.cpp c-interface/cpgm.h | sha256sum | cut -d' ' -f1)
h="$h $REPO"
if [ ! -f build/repo.hash ] || [ "$(cat build/repo.hash)" != "$h" ] || [ ! -f build/repo.stamp ]; then
  echo "$h" > build/repo.hash
  touch build/repo.stamp
fi
