#!/usr/bin/env python3
"""known.py open   -> lines "<property> <predicate>" for every open known finding (read by the engines)
   known.py list   -> human-readable list"""
import json, os, sys
root = os.path.dirname(os.path.dirname(os.path.abspath(__file__)))
data = json.load(open(os.path.join(root, 'known_findings.json')))
mode = sys.argv[1] if len(sys.argv) > 1 else 'list'
for e in data['findings']:
    if mode == 'open':
        if e['status'] == 'open':
            print(e['property'], e['predicate'])
    else:
        if e['status'] == 'fixed':
            print('fixed: property=%s %s %s' % (e['property'], e['commit'], e['what']))
        else:
            print('open: property=%s predicate=%s %s' % (e['property'], e['predicate'], e['what']))
