#!/usr/bin/env python3
"""C17: runs the AddressSanitizer builds of the engines over their own corpora (reduced bounds) with --prop C17 (memory-only verdicts)
and aggregates their evidence into evidence/C17.json. usage: check_c17.py <tier> <deadline seconds> <build dir> <out root>"""
import json, os, subprocess, sys, time
tier, deadline, B, root = sys.argv[1], float(sys.argv[2]), sys.argv[3], sys.argv[4]
# cheap engines first; every engine gets its share of the time that is still left, so unused time flows to the expensive ones
engines = ['mapped', 'copymove', 'cabi', 'multidim', 'dynamic', 'search']
share = {'search': 0.36, 'multidim': 0.12, 'mapped': 0.06, 'dynamic': 0.2, 'cabi': 0.2, 'copymove': 0.06}
t0 = time.time()
agg = {'states': 0, 'transitions': 0, 'traces_validated_against_impl': 0, 'evaluations': 0, 'distinct_nontrivial': 0}
per_engine, samples, rules, violations, herr, exhaustive, rc_all = {}, [], [], 0, 0, True, 0
for e in engines:
    out = os.path.join(root, 'build', 'c17_' + e)
    os.makedirs(out, exist_ok=True)
    env = dict(os.environ, VERIF_ROOT=out)
    # engines resolve evidence/replays under VERIF_ROOT; replays must end up under the real root so that the VIOLATION line is usable
    log = open(os.path.join(B, 'asan_C17_%s.log' % e), 'w')
    remaining = max(0.0, deadline - (time.time() - t0))
    rest = sum(share[x] for x in engines[engines.index(e):])
    p = subprocess.run([os.path.join(B, e + '_asan'), '--prop', 'C17', '--tier', tier, '--deadline', str(max(20, remaining * share[e] / rest))], env=env, stdout=subprocess.PIPE, stderr=log, text=True)
    for line in p.stdout.splitlines():
        if line.startswith('VIOLATION') or line.startswith('KNOWN-FINDING') or line.startswith('['):
            print(line)
    if p.returncode not in (0, 1):
        print('engine %s_asan failed with exit status %d (see %s)' % (e, p.returncode, log.name)); rc_all = 2
    elif p.returncode == 1 and rc_all == 0:
        rc_all = 1
    try:
        ev = json.load(open(os.path.join(out, 'evidence', 'C17.json')))
    except Exception as ex:
        print('no evidence from', e, ex); rc_all = 2; continue
    cov = ev['coverage']
    for k in agg: agg[k] += cov.get(k, 0)
    per_engine[e] = {'states': cov['states'], 'transitions': cov['transitions'], 'wall_s': ev['wall_s'], 'exhaustive': cov['exhaustive'], 'bounds': cov['bounds_completed'], 'counters': cov['counters'], 'violations': ev['violations'],
                     'semantic_mismatches_ignored': ev.get('semantic_mismatches_ignored_in_memory_only_mode', 0)}
    samples += cov['samples'][:2]
    violations += ev['violations']; herr += ev.get('harness_errors', 0)
    exhaustive = exhaustive and cov['exhaustive']
evidence = {
    'property_id': 'C17', 'tier': tier, 'seed': int(os.environ.get('VERIF_SEED', '0') or 0), 'level': 'model_checking', 'engine': 'memsafe (ASan builds of search, multidim, mapped, dynamic, cabi, copymove)',
    'coverage': dict(agg, rule='the bounded-exhaustive corpora of the engines of C01/C02/C07-C10 (search), C13/C14 (multidim), C11/C12 (mapped), C05/C06/C15 (dynamic), C18 (cabi) and C19 (copymove) at reduced bounds, executed in builds with AddressSanitizer (recover mode, __asan_on_error hook), _GLIBCXX_SANITIZE_VECTOR (reads between size() and capacity() count) and WITHOUT NDEBUG (a failed assert of the bundled sdsl is a fatal signal); every case runs every query/operation of its engine; only sanitizer reports and fatal signals are verdicts. A state is one built index / container state, a transition one query or operation; non-trivial as defined by each engine.',
                     exhaustive=exhaustive, per_engine=per_engine, samples=samples or ['(none)'], bounds_completed='; '.join('%s: %s' % (k, v['bounds']) for k, v in per_engine.items())),
    'assumptions': ['AddressSanitizer granularity (8-byte shadow, heap redzones); reads inside the padding that sdsl allocates after its bit vectors are not visible as overflows, which is why the build keeps the sdsl asserts enabled',
                    'reduced bounds compared with the functional checks (ASan makes every builder allocation an mmap)'],
    'wall_s': round(time.time() - t0, 2), 'violations': violations, 'harness_errors': herr,
}
os.makedirs(os.path.join(root, 'evidence'), exist_ok=True)
json.dump(evidence, open(os.path.join(root, 'evidence', 'C17.json'), 'w'), indent=1)
print('[memsafe C17 %s] states=%d transitions=%d violations=%d exhaustive=%s wall=%.1fs' % (tier, agg['states'], agg['transitions'], violations, exhaustive, time.time() - t0))
if rc_all == 0 and violations: rc_all = 1
sys.exit(rc_all)
