#!/bin/bash
# Builds every engine from files on disk (offline). Run once after a fresh restore; checks rebuild on demand afterwards.
set -e
cd "$(dirname "$0")/.."
./scripts/stamp.sh
make -s -j16 all
echo "setup done"
