#!/bin/bash
# usage: scripts/check.sh <property id> <quick|thorough>
# Rebuilds the engine the property needs from /repo's working tree (content-hash stamp), runs the bounded-exhaustive
# exploration and lets the engine write evidence/<id>.json. Exit 0: held on everything explored; 1: VIOLATION printed.
set -u
cd "$(dirname "$0")/.."
ROOT=$(pwd)
id="$1"; tier="${2:-${VERIF_TIER:-quick}}"
export VERIF_TIER="$tier"
export VERIF_ROOT="$ROOT"
./scripts/stamp.sh || exit 2
python3 scripts/known.py open > build/known_open.txt || exit 2
rm -rf "replays/$id"
build() {  # build <targets...>
  if ! make -s -j16 "$@" > "build/make_$id.log" 2>&1; then
    echo "BUILD FAILED for $id (see build/make_$id.log)"; tail -30 "build/make_$id.log"; exit 2
  fi
}
if [ "$tier" = thorough ]; then DL=${VERIF_DEADLINE:-1500}; else DL=${VERIF_DEADLINE:-170}; fi
case "$id" in
  C01|C02|C07|C08|C09|C10) build build/search; exec ./build/search --prop "$id" --tier "$tier" --deadline "$DL" ;;
  C03|C04) build build/segmentation; exec ./build/segmentation --prop "$id" --tier "$tier" --deadline "$DL" ;;
  C05|C06|C15) build build/dynamic; exec ./build/dynamic --prop "$id" --tier "$tier" --deadline "$DL" ;;
  C13|C14) build build/multidim; exec ./build/multidim --prop "$id" --tier "$tier" --deadline "$DL" ;;
  C11|C12) build build/mapped; exec ./build/mapped --prop "$id" --tier "$tier" --deadline "$DL" ;;
  C18) build build/cabi; exec ./build/cabi --prop "$id" --tier "$tier" --deadline "$DL" ;;
  C19) build build/copymove_asan; exec ./build/copymove_asan --prop "$id" --tier "$tier" --deadline "$DL" 2> "build/asan_$id.log" ;;
  *) echo "unknown property $id"; exit 2 ;;
esac
