#!/bin/bash
# usage: scripts/check.sh <property id> <quick|thorough>
# Rebuilds the engine the property needs from the repository working tree (content-hash stamp), runs the bounded-exhaustive
# exploration and lets the engine write evidence/<id>.json. Exit 0: held on everything explored; 1: VIOLATION printed.
# Environment (used by scripts/run_seeded.sh to judge a modified copy without touching /repo or this tree's evidence):
#   VERIF_REPO  repository to compile from (default /repo)     VERIF_BUILD  build directory (default build)
#   VERIF_OUT   where evidence/ and replays/ are written (default: this directory)
set -u
cd "$(dirname "$0")/.."
ROOT=$(pwd)
id="$1"; tier="${2:-${VERIF_TIER:-quick}}"
export VERIF_TIER="$tier"
export VERIF_REPO="${VERIF_REPO:-/repo}"
B="${VERIF_BUILD:-build}"
export VERIF_BUILD="$B"
export VERIF_ROOT="${VERIF_OUT:-$ROOT}"
mkdir -p "$VERIF_ROOT/build" "$B"
./scripts/stamp.sh || exit 2
python3 scripts/known.py open > "$VERIF_ROOT/build/known_open.txt" || exit 2
rm -rf "$VERIF_ROOT/replays/$id"
build() {  # build <targets...>
  if ! make -s -j16 REPO="$VERIF_REPO" B="$B" "$@" > "$B/make_$id.log" 2>&1; then
    echo "BUILD FAILED for $id (see $B/make_$id.log)"; grep -m5 -E "error" "$B/make_$id.log" | cut -c1-300; exit 2
  fi
}
if [ "$tier" = thorough ]; then DL=${VERIF_DEADLINE:-3000}; else DL=${VERIF_DEADLINE:-170}; fi
case "$id" in
  C01|C02|C07|C08|C09|C10) build "$B/search"; exec "$B/search" --prop "$id" --tier "$tier" --deadline "$DL" ;;
  C03|C04) build "$B/segmentation" "$B/ompbind_real"; exec "$B/segmentation" --prop "$id" --tier "$tier" --deadline "$DL" --ompbind-bin "$(cd "$B" && pwd)/ompbind_real" ;;
  C05|C06|C15) build "$B/dynamic"; exec "$B/dynamic" --prop "$id" --tier "$tier" --deadline "$DL" ;;
  C11|C12) build "$B/mapped"; exec "$B/mapped" --prop "$id" --tier "$tier" --deadline "$DL" ;;
  C13|C14) build "$B/multidim"; exec "$B/multidim" --prop "$id" --tier "$tier" --deadline "$DL" ;;
  C18) build "$B/cabi"; exec "$B/cabi" --prop "$id" --tier "$tier" --deadline "$DL" ;;
  C19) build "$B/copymove_asan"; exec "$B/copymove_asan" --prop "$id" --tier "$tier" --deadline "$DL" 2> "$B/asan_$id.log" ;;
  C20) build "$B/reject"; exec "$B/reject" --prop "$id" --tier "$tier" --deadline "$DL" ;;
  C17) [ "$tier" = quick ] && DL=${VERIF_DEADLINE:-240}   # six sanitizer engines in a row
       build "$B/search_asan" "$B/multidim_asan" "$B/mapped_asan" "$B/dynamic_asan" "$B/cabi_asan" "$B/copymove_asan"; exec python3 scripts/check_c17.py "$tier" "$DL" "$B" "$VERIF_ROOT" ;;
  C16) build "$B/conc_mc" "$B/conc_tsan"; exec "$B/conc_mc" --prop "$id" --tier "$tier" --deadline "$DL" --tsan-bin "$(cd "$B" && pwd)/conc_tsan" ;;
  *) echo "unknown property $id"; exit 2 ;;
esac
