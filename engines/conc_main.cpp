// Engine `conc` (C16): concurrent read-only queries.
//  Layer 1  every query of every class runs under the access monitor (mc/vrt.cpp): its shared write set must be empty; with no shared
//           writes all steps of different reader threads commute, so every interleaving is equivalent to a sequential one.
//  Layer 2  explicit exploration of thread schedules (real pthreads, serialising hand-off scheduler): scheduling points are call
//           boundaries plus every access to a location of the conflict set found by layer 1, every atomic and every mutex operation;
//           preemption-bounded DFS; every call must return the digest it returns alone.
//  Layer 3  free-running cross-check with the real ThreadSanitizer runtime (separate binary), 16 threads.
#include "../mc/common.hpp"
#include "../mc/vrt.hpp"
#include "conc_zoo.hpp"
#include <pthread.h>

using mc::Run;

struct Cn {
    int queries, accesses, shared_reads, shared_writes, locked_writes, atomics, locks, conflicts, programs, schedules, points, outcomes_multi, max_preempt, replays, tsan_threads, tsan_calls, tsan_reports, guarded;
    explicit Cn(Run &r) {
        queries = r.counter("layer1_queries_monitored"); accesses = r.counter("layer1_instrumented_accesses"); shared_reads = r.counter("layer1_shared_reads"); shared_writes = r.counter("layer1_unsynchronised_shared_writes");
        locked_writes = r.counter("layer1_shared_writes_under_a_lock"); atomics = r.counter("layer1_atomic_operations"); locks = r.counter("layer1_mutex_operations"); conflicts = r.counter("conflict_set_locations");
        programs = r.counter("layer2_programs"); schedules = r.counter("layer2_schedules_executed"); points = r.counter("layer2_scheduling_points"); outcomes_multi = r.counter("layer2_programs_with_more_than_one_outcome");
        max_preempt = r.counter("layer2_max_preemptions_in_a_schedule"); replays = r.counter("layer2_schedules_replayed_for_determinism"); tsan_threads = r.counter("layer3_tsan_threads"); tsan_calls = r.counter("layer3_tsan_calls");
        tsan_reports = r.counter("layer3_tsan_reports"); guarded = r.counter("layer1_writes_inside_static_init_guards");
    }
};

static uint64_t solo[16][16];

// ---- layer 2 machinery ------------------------------------------------------------------------------------------------------------
struct Program { int cls; int nthreads; std::vector<std::vector<int>> calls; };   // calls[t] = query ids
struct Exec { std::vector<vrt::Point> points; std::vector<std::vector<uint64_t>> digests; bool diverged = false; int aborted_thread = -1; };

struct ThreadArg { const Program *prog; int tid; std::vector<uint64_t> *out; };
static void *thread_main(void *p) {
    auto *a = (ThreadArg *) p;
    vrt::thread_init(a->tid);
    vrt::sched_thread_enter(a->tid);
    auto &calls = a->prog->calls[a->tid];
    for (size_t i = 0; i < calls.size(); ++i) {
        if (i > 0) vrt::sched_call_boundary();
        vrt::mon_begin();
        uint64_t d = zoo_run(a->prog->cls, calls[i]);
        vrt::mon_end();
        a->out->push_back(d);
    }
    vrt::sched_thread_exit(a->tid);
    return nullptr;
}

static Exec run_schedule(const Program &prog, const std::vector<int> &prefix) {
    Exec x; x.digests.assign(prog.nthreads, {});
    vrt::restore_world();
    vrt::sched_begin(prog.nthreads, &prefix, &x.points);
    std::vector<pthread_t> th(prog.nthreads); std::vector<ThreadArg> args(prog.nthreads);
    for (int t = 0; t < prog.nthreads; ++t) { x.digests[t].reserve(8); args[t] = {&prog, t, &x.digests[t]}; pthread_create(&th[t], nullptr, thread_main, &args[t]); }
    vrt::sched_start_and_wait();
    for (int t = 0; t < prog.nthreads; ++t) pthread_join(th[t], nullptr);
    x.diverged = vrt::sched_diverged();
    for (int t = 0; t < prog.nthreads; ++t) if (vrt::thread_aborted(t)) x.aborted_thread = t;
    vrt::restore_world();
    return x;
}

static std::string prog_str(const Program &p) {
    std::string s;
    for (int t = 0; t < p.nthreads; ++t) { if (t) s += '|'; for (size_t i = 0; i < p.calls[t].size(); ++i) s += (i ? "," : "") + std::to_string(p.calls[t][i]); }
    return s;
}
static std::string sched_str(const std::vector<int> &c) { std::string s; for (size_t i = 0; i < c.size(); ++i) s += (i ? "," : "") + std::to_string(c[i]); return s.empty() ? "-" : s; }

struct Explorer {
    Run &run; Cn &cn; const Program &prog; int bound; size_t max_schedules;
    size_t schedules = 0; std::set<std::string> outcomes; bool failed = false; bool capped = false;

    std::string case_of(const std::vector<int> &choices) { return std::string("class=") + std::to_string(prog.cls) + " layer=2 threads=" + std::to_string(prog.nthreads) + " prog=" + prog_str(prog) + " schedule=" + sched_str(choices) + " name=" + zoo_class_name(prog.cls); }

    bool check(const Exec &x, const std::vector<int> &choices) {
        std::string outcome;
        bool ok = true; int bad_t = -1; size_t bad_i = 0;
        for (int t = 0; t < prog.nthreads; ++t) {
            if (x.digests[t].size() != prog.calls[t].size()) { ok = false; bad_t = t; break; }
            for (size_t i = 0; i < prog.calls[t].size(); ++i) { outcome += std::to_string(x.digests[t][i]) + ","; if (x.digests[t][i] != solo[prog.cls][prog.calls[t][i]] && ok) { ok = false; bad_t = t; bad_i = i; } }
        }
        outcomes.insert(outcome);
        if (x.aborted_thread >= 0) {
            size_t i = x.digests[x.aborted_thread].size();
            run.violation(case_of(choices), std::string("under this schedule thread ") + std::to_string(x.aborted_thread) + " call #" + std::to_string(i) + " (" + (i < prog.calls[x.aborted_thread].size() ? zoo_query_name(prog.cls, prog.calls[x.aborted_thread][i]) : "?") + ") did not return within the horizon of instrumented accesses (it returns promptly when run alone)");
            failed = true; return false;
        }
        if (!ok) {
            // replay the schedule before reporting: the verdict must be reproducible
            Exec y = run_schedule(prog, choices); run.add(cn.replays);
            bool same = y.digests == x.digests;
            if (!same) { run.harness_error("a failing schedule did not reproduce: " + case_of(choices)); return false; }
            run.violation(case_of(choices), std::string("under this schedule thread ") + std::to_string(bad_t) + " call #" + std::to_string(bad_i) + " (" + zoo_query_name(prog.cls, prog.calls[bad_t][bad_i]) + ") returned a result different from the one it returns alone");
            failed = true;
        }
        return ok;
    }

    void explore(const std::vector<int> &prefix) {
        if (failed || capped) return;
        if (schedules >= max_schedules || run.deadline_passed()) { capped = true; return; }
        Exec x = run_schedule(prog, prefix);
        ++schedules; run.add(cn.schedules); run.add(cn.points, x.points.size());
        if (x.diverged) { run.harness_error("replay of a schedule prefix diverged: " + case_of(prefix)); failed = true; return; }
        std::vector<int> choices; for (auto &p : x.points) choices.push_back(p.chosen < 0 ? 0 : p.chosen);
        if (schedules == 1) {   // determinism: the same choice sequence must yield the same points and results
            Exec y = run_schedule(prog, choices); run.add(cn.replays);
            if (y.points.size() != x.points.size() || y.digests != x.digests) { run.harness_error("re-running a schedule gave different scheduling points: " + case_of(choices)); failed = true; return; }
        }
        if (!check(x, choices)) return;
        std::vector<int> pre_cost(x.points.size() + 1, 0);
        for (size_t i = 0; i < x.points.size(); ++i) pre_cost[i + 1] = pre_cost[i] + ((x.points[i].running_enabled && x.points[i].chosen > 0) ? 1 : 0);
        uint64_t mp = pre_cost[x.points.size()];
        auto cur = run.sh->counters[cn.max_preempt].load(); while (cur < mp && !run.sh->counters[cn.max_preempt].compare_exchange_weak(cur, mp)) {}
        for (size_t i = prefix.size(); i < x.points.size(); ++i) {
            auto &p = x.points[i];
            for (int alt = 1; alt < p.n_enabled; ++alt) {
                int cost = pre_cost[i] + (p.running_enabled ? 1 : 0);
                if (cost > bound) continue;
                std::vector<int> np(choices.begin(), choices.begin() + i); np.push_back(alt);
                explore(np);
                if (failed || capped) return;
            }
        }
    }
};

// sub-alphabet of 4 queries per class for layer 2
static std::vector<int> sub_alphabet(int c) { return c == 5 ? std::vector<int>{0, 1, 3, 4} : c == 6 ? std::vector<int>{0, 3, 5, 6} : c == 4 ? std::vector<int>{0, 1, 2, 3} : std::vector<int>{0, 1, 3, 6}; }

static bool layer1(Run &run, Cn &cn, int c, bool report) {
    bool clean = true;
    for (int pass = 0; pass < 2; ++pass)
        for (int q = 0; q < zoo_queries(c); ++q) {
            std::string cs = std::string("class=") + std::to_string(c) + " layer=1 query=" + std::to_string(q) + " name=" + zoo_class_name(c) + "::" + zoo_query_name(c, q);
            run.set_case(cs);
            vrt::mon_begin();
            uint64_t d = zoo_run(c, q);
            vrt::Stats st = vrt::mon_end();
            if (report) {
                run.add(cn.queries); run.add(cn.accesses, st.accesses); run.add(cn.shared_reads, st.shared_reads); run.add(cn.shared_writes, st.shared_writes); run.add(cn.locked_writes, st.locked_writes);
                run.add(cn.atomics, st.atomic_ops); run.add(cn.locks, st.lock_ops); run.add(cn.guarded, st.guarded_init_writes);
            }
            if (pass == 0) solo[c][q] = d;
            else if (d != solo[c][q] && report) { run.violation(cs, "the query returns a different result when repeated after the other queries (queries leave state behind)"); clean = false; }
            if (st.shared_writes > 0) {
                clean = false;
                if (report) {
                    std::string w;
                    for (auto &r : vrt::shared_writes()) if (!r.under_lock) { char b[96]; snprintf(b, sizeof b, " [%zu bytes at %p from pc %p]", r.size, (void *) r.addr, r.pc); w += b; if (w.size() > 300) break; }
                    run.violation(cs, "data race: the query writes " + std::to_string(st.shared_writes) + " time(s) to memory shared with other threads without synchronisation; two threads running it concurrently conflict on" + w);
                }
            }
            if (st.alloc_overflow && report) run.harness_error("allocation table overflow in " + cs);
            vrt::restore_world();
        }
    return clean;
}

static void run_class(Run &run, Cn &cn, int c, bool thorough) {
    vrt::thread_init(-1);
    vrt::clear_conflicts();
    vrt::set_access_budget(3000000);   // the longest query makes a few thousand instrumented accesses when run alone
    layer1(run, cn, c, true);
    run.add(cn.conflicts, vrt::conflict_count());
    // layer 2 (also when layer 1 found races: it then produces a concrete schedule with a wrong result, if one exists within the bound)
    auto A = sub_alphabet(c);
    int bound = thorough ? 3 : 2;
    size_t cap = thorough ? 200000 : 20000;
    bool sampled = false;
    auto do_prog = [&](const Program &p) {
        if (run.deadline_passed()) return;
        Explorer ex{run, cn, p, bound, cap};
        run.set_case(ex.case_of({}));
        ex.explore({});
        run.add(cn.programs);
        if (ex.outcomes.size() > 1) run.add(cn.outcomes_multi);
        if (ex.capped) run.sh->capped.fetch_or(2);
        if (!sampled && p.nthreads == 2 && p.calls[0][0] != p.calls[1][0]) { run.sample(ex.case_of({}) + " -> " + std::to_string(ex.schedules) + " schedules, " + std::to_string(ex.outcomes.size()) + " outcome(s)"); sampled = true; }
    };
    std::vector<int> All; for (int q = 0; q < zoo_queries(c); ++q) All.push_back(q);
    const std::vector<int> &A2 = All;   // the whole 8-query alphabet for 2x2 and 3x1
    for (int a : A2) for (int b : A2) for (int d : A2) for (int e : A2) { Program p{c, 2, {{a, b}, {d, e}}}; do_prog(p); }
    for (int a : A2) for (int b : A2) for (int d : A2) { Program p{c, 3, {{a}, {b}, {d}}}; do_prog(p); }
    if (thorough) {
        for (int a : A) for (int b : A) for (int d : A) for (int e : A) for (int f : A) for (int g : A) { Program p{c, 3, {{a, b}, {d, e}, {f, g}}}; do_prog(p); }
        for (int a : A) for (int b : A) for (int d : A) for (int e : A) { Program p{c, 4, {{a}, {b}, {d}, {e}}}; do_prog(p); }
        for (int a : A) for (int b : A) for (int d : A) { Program p{c, 2, {{a, b, d}, {d, a, b}}}; do_prog(p); }
    }
}

int main(int argc, char **argv) {
    auto opt = mc::parse_args(argc, argv);
    if (opt.property != "C16") { fprintf(stderr, "usage: conc --prop C16 [--tier ..] [--replay f] [--tsan-bin path]\n"); return 2; }
    bool thorough = opt.tier == "thorough";
    Run run(opt, "conc");
    Cn cn(run);
    std::string dir = std::string(access("/dev/shm", W_OK) == 0 ? "/dev/shm" : "/tmp") + "/verif_conc_" + std::to_string(getpid());
    mkdir(dir.c_str(), 0700);
    vrt::thread_init(-1);
    zoo_build(dir.c_str());

    if (!opt.replay.empty()) {
        auto m = mc::parse_case(mc::json_field(mc::read_file(opt.replay), "case"));
        run.opt.write_evidence = false; run.worker_id = 0;
        int c = atoi(m["class"].c_str());
        layer1(run, cn, c, m["layer"] == "1");
        if (m["layer"] == "2") {
            Program p; p.cls = c; p.nthreads = atoi(m["threads"].c_str());
            for (auto &t : mc::split(m["prog"], '|')) { std::vector<int> calls; for (auto &q : mc::split(t, ',')) calls.push_back(atoi(q.c_str())); p.calls.push_back(calls); }
            std::vector<int> choices; if (m["schedule"] != "-") for (auto &t : mc::split(m["schedule"], ',')) choices.push_back(atoi(t.c_str()));
            Exec x = run_schedule(p, choices);
            printf("replay: %zu scheduling points\n", x.points.size());
            for (int t = 0; t < p.nthreads; ++t) for (size_t i = 0; i < p.calls[t].size(); ++i) {
                bool ok = i < x.digests[t].size() && x.digests[t][i] == solo[c][p.calls[t][i]];
                printf("  thread %d call %zu %-28s %s\n", t, i, zoo_query_name(c, p.calls[t][i]), ok ? "as alone" : "DIFFERENT from its solo result");
                if (!ok) run.violation(m["class"], "schedule reproduces a wrong result");
            }
        }
        auto v = run.sh->violations.load();
        printf("replay verdict: %s\n", v ? "VIOLATION reproduced" : "no violation");
        zoo_destroy(); rmdir(dir.c_str());
        return v ? 1 : 0;
    }

    run.run_tasks(zoo_classes(), [&](uint64_t c) { run_class(run, cn, int(c), thorough); });

    // layer 3: the real ThreadSanitizer runtime, free running
    if (opt.extra.count("tsan-bin") && !run.deadline_passed()) {
        std::string log = dir + "/tsan.log";
        std::string cmd = "TSAN_OPTIONS='halt_on_error=1 exitcode=66 report_signal_unsafe=0' '" + opt.extra["tsan-bin"] + "' " + (thorough ? "400" : "60") + " '" + dir + "' > '" + log + "' 2>&1";
        int rc = system(cmd.c_str());
        std::string out = mc::read_file(log);
        size_t reports = 0, pos = 0; while ((pos = out.find("WARNING: ThreadSanitizer", pos)) != std::string::npos) { ++reports; ++pos; }
        run.add(cn.tsan_threads, 16);
        auto cp = out.find("calls="); if (cp != std::string::npos) run.add(cn.tsan_calls, strtoull(out.c_str() + cp + 6, nullptr, 10));
        run.add(cn.tsan_reports, reports);
        bool mismatch = out.find("MISMATCH") != std::string::npos;
        if (reports || mismatch || (WIFEXITED(rc) && WEXITSTATUS(rc) != 0) || !WIFEXITED(rc)) {
            auto p = out.find("WARNING: ThreadSanitizer");
            run.violation("layer=3 free-running ThreadSanitizer pass, 16 threads", "ThreadSanitizer run failed (" + std::to_string(reports) + " report(s)" + (mismatch ? ", result mismatch" : "") + "): " + (p == std::string::npos ? out.substr(0, 300) : out.substr(p, 400)));
        }
        unlink(log.c_str());
    }
    zoo_destroy();
    { std::string cmd = "rm -rf '" + dir + "'"; if (system(cmd.c_str())) {} }

    mc::Run::EvidenceExtra ev;
    ev.states_counter = "layer2_schedules_executed"; ev.transitions_counter = "layer2_scheduling_points"; ev.nontrivial_counter = "layer2_programs"; ev.eval_counter = "layer1_queries_monitored";
    ev.rule = "7 objects (PGMIndex, Compressed, Bucketing, Elias-Fano, Mapped, Multidimensional, Dynamic with several non-empty levels and tombstones), 8 read-only queries each. Layer 1: every query runs twice under an access monitor fed by clang's -fsanitize=thread instrumentation "
              "(own runtime): accesses to the thread's stack or to memory allocated inside the query are private, everything else is shared; the property requires the set of unsynchronised shared writes to be empty. Layer 2: for every assignment of the 8 queries of a class to 2 threads x 2 calls and 3 threads x 1 call, "
              "every schedule within the preemption bound is executed on real threads under a serialising scheduler whose scheduling points are call boundaries, accesses to conflict-set locations, atomics and mutex operations (with an empty conflict set this is every interleaving at call granularity); each call must return its solo digest. "
              "Layer 3 (cross-check, sampling): the same queries on 16 free-running threads under the real ThreadSanitizer. A state is one executed schedule, a transition one scheduling point; non-trivial = one multi-threaded program.";
    ev.bounds = std::string("preemption bound ") + (thorough ? "3" : "2") + "; " + (thorough ? "2x2 and 3x1 programs over all 8 queries, 3x2, 4x1 and 2x3 programs over 4 queries per class" : "2x2 and 3x1 programs over all 8 queries per class") + "; schedule cap per program " + (thorough ? "200000" : "20000");
    ev.assumptions = {"sequentially consistent interleavings (irrelevant while the shared write set is empty)", "the monitor sees the accesses of code compiled in the instrumented translation unit (the header-only library and libstdc++ templates) plus memcpy/memmove/memset and malloc/free by interposition",
                      "layer 3 is a sampling cross-check, not the deciding step"};
    return run.finish(ev);
}
