// Engine `search` driver: task lists per property and tier, registry, omp interposition, evidence.
#include "search_impl.hpp"

namespace verif {
std::vector<RouteRec> route_log;
bool route_on = false;
int chunks = 1;
int env = 0;
}
// The headers are compiled with -D_OPENMP but without -fopenmp: the chunk count of make_segmentation_par is whatever the
// harness answers here, and the chunks run sequentially in this thread.
extern "C" int omp_get_num_procs(void) noexcept { return verif::env == 2 ? verif::chunks + 5 : verif::chunks; }
extern "C" int omp_get_max_threads(void) noexcept { return verif::env == 1 ? verif::chunks + 3 : verif::chunks; }
extern "C" int omp_get_thread_num(void) noexcept { return 0; }      // pragmas are ignored in this build: every parallel region runs as a team of one
extern "C" int omp_get_num_threads(void) noexcept { return 1; }
extern "C" int omp_in_parallel(void) noexcept { return 0; }
extern "C" void omp_set_num_threads(int) noexcept {}
extern "C" int omp_get_thread_limit(void) noexcept { return 1; }

namespace se {
std::vector<CfgEntry> &registry() { static std::vector<CfgEntry> r; return r; }
}

#ifdef VERIF_ASAN
extern "C" void __asan_on_error() {
    if (mc::g_run) mc::g_run->violation(mc::g_run->worker_id >= 0 ? mc::g_run->sh->slot[mc::g_run->worker_id] : "(parent)", "AddressSanitizer reported an invalid memory access");
}
extern "C" const char *__asan_default_options() { return "halt_on_error=0:detect_leaks=0:print_summary=0:allocator_may_return_null=1"; }
#endif

struct Task {
    int cfg = 0, kind = 0;            // kind 0: small scope, 1: seam family, 2: blocks family
    int palette = 0, len = 0, first = 0;
    long n = 0, p = 1, seam = 0, word_lo = 0, word_hi = 0;     // seam
    long rep = 1, nblocks = 1, b0_lo = 0, b0_hi = 0;            // blocks: first block id range, others all
};

int main(int argc, char **argv) {
    auto opt = mc::parse_args(argc, argv);
    if (opt.property.empty()) { fprintf(stderr, "usage: search --prop C01|C02|C07|C08|C09|C10|C17 [--tier quick|thorough] [--replay file]\n"); return 2; }
    int prop = atoi(opt.property.c_str() + 1);
    const char *klass = prop == 8 ? "compressed" : prop == 9 ? "bucketing" : prop == 10 ? "eliasfano" : prop == 17 ? "" : "pgm";
    bool thorough = opt.tier == "thorough";
    mc::Run run(opt, "search");
    se::Counters cn(run);
    auto &reg = se::registry();

    if (!opt.replay.empty()) {
        auto text = mc::read_file(opt.replay);
        auto m = mc::parse_case(mc::json_field(text, "case"));
        run.opt.write_evidence = false;
        run.worker_id = 0;
        for (auto &e : reg) if (m["cfg"] == e.name) {
            e.replay(run, cn, prop, m);
            auto v = run.sh->violations.load();
            printf("replay verdict: %s\n", v ? "VIOLATION reproduced" : "no violation");
            return v ? 1 : 0;
        }
        fprintf(stderr, "unknown cfg %s\n", m["cfg"].c_str());
        return 2;
    }

    int N = thorough ? 11 : 8;
#ifdef VERIF_ASAN
    N = thorough ? 6 : 5;
#endif
    if (opt.extra.count("N")) N = atoi(opt.extra["N"].c_str());
    bool do_families = !opt.extra.count("nofamilies");
    bool asan_quick = false;   // ASan quick tier: only the long-run family and a thin slice of the seam family, on a few configurations
#ifdef VERIF_ASAN
    asan_quick = !thorough;
#endif

    std::vector<Task> tasks;
    std::vector<int> cfgs;
    for (size_t c = 0; c < reg.size(); ++c) {
        auto &e = reg[c];
        if (*klass && strcmp(klass, e.klass) != 0) continue;
        if ((e.tier % 10) == 1 && !thorough) continue;
        if (prop == 7 && e.eps_rec == 0) continue;
        if (opt.extra.count("cfg") && opt.extra["cfg"] != e.name) continue;
        cfgs.push_back(int(c));
    }
    for (int len = 1; len <= N; ++len)
        for (int c : cfgs)
            for (int p = 0; p < reg[c].npalettes; ++p)
                for (int f = 0; f < 10; ++f) { Task t; t.cfg = c; t.kind = 0; t.palette = p; t.len = len; t.first = f; tasks.push_back(t); }

    std::string fam_bounds;
    if (do_families) {
        for (int c : cfgs) {
            auto &e = reg[c];
            int fam = e.tier / 10;   // bit 0: seam family, bit 1: blocks family, bit 2: density family
            bool wide = e.key_class >= 4;
            // capacity family: segment counts just below what build() reserves, for every cluster count in a window (the segment array
            // grows while an upper level is being built)
            if (e.eps >= 2 && e.eps <= 16 && e.eps_rec >= 1) {
                long lo = e.eps == 2 ? 6 : 2 * long(e.eps * e.eps), hi = lo + (e.eps == 2 ? 74 : 150);
                for (long c0 = lo; c0 < hi; c0 += 25) { Task t; t.cfg = c; t.kind = 8; t.word_lo = c0; t.word_hi = std::min(hi, c0 + 25); tasks.push_back(t); }
            }
            if (asan_quick) {
                static const char *few[] = {"pgm<u64,1,1,float>", "pgm<f64,1,1,double>", "compressed<u64,1,1,float>", "bucketing<u64,1,3,0>", "eliasfano<u64,1,float>"};
                bool sel = false; for (auto *n : few) if (!strcmp(n, e.name)) sel = true;
                if (!sel) continue;
                { Task t; t.cfg = c; t.kind = 7; tasks.push_back(t); }
                for (long p : {2L, 20L}) {
                    for (long j = 0; j < p; ++j) { if (p == 20 && j > 1 && j < 18) continue; for (long len : {1L, 2L}) { if (j + len > p) continue; Task t; t.cfg = c; t.kind = 4; t.n = 32768; t.p = p; t.seam = j; t.rep = len; tasks.push_back(t); } }
                    for (long w = 0; w < 4096; w += 512) { Task t; t.cfg = c; t.kind = 1; t.n = 32768; t.p = p; t.seam = 0; t.word_lo = w + 37; t.word_hi = w + 45; tasks.push_back(t); }
                }
                continue;
            }
            // irr family (every configuration): hashed irregular data for EVERY n in 9..400 (thorough 9..1200, three seeds)
            for (long n0 = 9; n0 < (thorough ? 1200 : 400); n0 += 49) { Task t; t.cfg = c; t.kind = 12; t.word_lo = n0; t.word_hi = std::min<long>(n0 + 49, thorough ? 1200 : 400); tasks.push_back(t); }
            // randtop family (every configuration): 300 pseudo-randomly spaced keys ending at the largest valid key, 120 (thorough 600) seeds
            for (long w0 = 0; w0 < (thorough ? 600 : 120); w0 += 40) { Task t; t.cfg = c; t.kind = 11; t.word_lo = w0; t.word_hi = w0 + 40; tasks.push_back(t); }
            // span family (every configuration, every integral key type): clusters spread over the whole domain of the key type
            {
                Task t; t.cfg = c; t.kind = 7; tasks.push_back(t);
            }
            if ((fam & 1) && wide) {
                std::vector<long> ps = thorough ? std::vector<long>{2, 3, 4, 5, 7, 16, 19, 20} : std::vector<long>{2, 20};
                std::vector<long> deltas = thorough ? std::vector<long>{0, 1, 7} : std::vector<long>{0};
                for (long p : ps)
                    for (long d : deltas) {
                        std::vector<long> seams = {0};
                        if (thorough && d == 0) { seams.push_back(1); if (p > 2) seams.push_back(p - 1); }
                        for (long s : seams)
                            for (long w = 0; w < 4096; w += 64) { Task t; t.cfg = c; t.kind = 1; t.n = 32768 + d; t.p = p; t.seam = s; t.word_lo = w; t.word_hi = w + 64; tasks.push_back(t); }
                    }
            }
            if ((fam & 1) && wide) {
                // long duplicate runs that start around a chunk start and end around a chunk end (whole chunks of duplicates)
                for (long p : (thorough ? std::vector<long>{2, 3, 5, 20} : std::vector<long>{2, 20}))
                    for (long j = 0; j < p; ++j) {
                        if (p == 20 && !thorough && j > 2 && j < 17) continue;
                        for (long len : {1L, 2L}) { if (j + len > p) continue; Task t; t.cfg = c; t.kind = 4; t.n = 32768; t.p = p; t.seam = j; t.rep = len; tasks.push_back(t); }
                    }
            }
            if ((fam & 1) && wide) {
                // two runs meeting just before a chunk end: the first stops 1..3 slots before it, the second starts on the last slot
                for (long p : (thorough ? std::vector<long>{2, 3, 5, 20} : std::vector<long>{2, 20}))
                    for (long j : (thorough ? std::vector<long>{0, 1, p - 2} : std::vector<long>{0, p - 2})) { if (j < 0 || j > p - 2) continue; Task t; t.cfg = c; t.kind = 10; t.n = 32768; t.p = p; t.seam = j; tasks.push_back(t); }
            }
            if ((fam & 4) && wide) {
                // segment-count sweep: one density block of c clusters for every c in 1..400 (every residue of the segment count modulo
                // 64 and 4096-related block sizes of the succinct structures)
                for (long c0 = 1; c0 <= 400; c0 += 20) { Task t; t.cfg = c; t.kind = 6; t.word_lo = c0; t.word_hi = c0 + 20; tasks.push_back(t); }
                // mega variant (one-level classes only): 150,000 clusters plus 15 far outliers: select structures get "long" blocks
                if (e.eps <= 2 && ((e.eps_rec == 0 && (!strcmp(e.klass, "eliasfano") || !strcmp(e.klass, "pgm"))) || (!strcmp(e.klass, "compressed") && e.eps_rec <= 1))) { Task t; t.cfg = c; t.kind = 3; t.word_lo = 114; t.word_hi = 115; t.rep = 37500; t.n = 4; t.seam = 4; t.p = 1; tasks.push_back(t); }
            }
            if ((fam & 4) && wide) {
                // skewed variants (a jump of 3x / 30x the span): 64 words each
                for (long jump = 1; jump <= 3; ++jump) for (long w = 0; w < 256; w += 32) { Task t; t.cfg = c; t.kind = 3; t.word_lo = w; t.word_hi = w + 32; t.rep = 300; t.n = 4; t.seam = jump; tasks.push_back(t); }
                // huge variant: more than 2^15 segments on the bottom level, so that the upper levels are built by the chunked builder
                // chunk-tail variant: the density toggles d clusters before every chunk boundary of the (possibly chunked) upper level
                if (e.eps <= 2 && e.eps_rec > 0) for (long p : {2L, 16L}) for (long d : (thorough ? std::vector<long>{0, 1, 2, 3, 5, 9} : std::vector<long>{1, 3}))
                    for (long B : {std::max<long>(5, 2 * long(e.eps_rec) + 1), 300L}) { Task t; t.cfg = c; t.kind = 5; t.rep = 44000; t.p = p; t.word_lo = d; t.word_hi = B; tasks.push_back(t); }
                // the same with 1..11 far tail clusters: upper levels whose size is not a multiple of the chunk count and whose last points leave the trend
                if (e.eps <= 2 && e.eps_rec > 0) for (long p : {2L, 16L}) for (long tail : (thorough ? std::vector<long>{1, 2, 3, 5, 7, 11, 13} : std::vector<long>{2, 5, 11}))
                    { Task t; t.cfg = c; t.kind = 5; t.rep = 44000; t.p = p; t.word_lo = 1; t.word_hi = 300; t.n = tail; tasks.push_back(t); }
                if (e.eps <= 2) for (long p : {2L, 16L}) for (long w : (thorough ? std::vector<long>{27, 114, 201, 228} : std::vector<long>{27, 228})) { Task t; t.cfg = c; t.kind = 3; t.word_lo = w; t.word_hi = w + 1; t.rep = 11000; t.n = 4; t.p = p; tasks.push_back(t); }
            }
            if ((fam & 4) && wide) {
                // the same density members placed at 3/4 of the key domain (64-bit keys there are not exactly representable as double)
                for (int top : {1, 2})   // 2: negative keys (signed key types only; other types have no such member)
                for (long w : (thorough ? std::vector<long>{0, 27, 57, 114, 201, 228, 255} : std::vector<long>{27, 114, 228})) { Task t; t.cfg = c; t.kind = 3; t.word_lo = w; t.word_hi = w + 1; t.rep = 300; t.n = 4; t.p = 1; t.first = top; tasks.push_back(t); }
                // stretch family: tens of thousands of short segments and one segment covering four million positions
                if (e.eps <= 2 && (!strcmp(e.klass, "compressed") || !strcmp(e.klass, "eliasfano") || (!strcmp(e.klass, "pgm") && e.eps_rec <= 1)))
                    for (auto al : (thorough ? std::vector<std::pair<long, long>>{{74000, 3680000}, {45000, 4200000}, {60000, 3000000}, {74000, 3400000}} : std::vector<std::pair<long, long>>{{74000, 3680000}})) { Task t; t.cfg = c; t.kind = 9; t.rep = al.first; t.n = al.second; t.word_lo = 6000; tasks.push_back(t); }   // sizes for which a long select block starts beyond 2^17 bits but spans fewer
                // segment counts around the block sizes of the succinct structures (4096 ones per select superblock, 65536)
                if (e.eps <= 2) for (long c0 : (thorough ? std::vector<long>{4090, 8186, 12282, 65530} : std::vector<long>{4090, 8186})) { Task t; t.cfg = c; t.kind = 6; t.word_lo = c0; t.word_hi = c0 + 12; tasks.push_back(t); }
            }
            if ((fam & 4) && wide) {
                // density family: all 4-digit (quick) / 5-digit (thorough) words of gap multipliers, 300 clusters per digit
                long width = thorough ? 5 : 4, nwords = 1; for (long i = 0; i < width; ++i) nwords *= 4;
                for (long w = 0; w < nwords; w += 8) { Task t; t.cfg = c; t.kind = 3; t.word_lo = w; t.word_hi = std::min(nwords, w + 8); t.rep = 300; t.n = width; tasks.push_back(t); }
            }
            if (fam & 2) {
                // one block repeated; two blocks; (thorough) three blocks from a reduced alphabet
                for (long rep : (thorough ? std::vector<long>{1, 50, 400} : std::vector<long>{1, 50}))
                    { Task t; t.cfg = c; t.kind = 2; t.nblocks = 1; t.rep = rep; t.b0_lo = 0; t.b0_hi = ks::NUM_BLOCK_IDS; tasks.push_back(t); }
                for (long rep : (thorough ? std::vector<long>{1, 20} : std::vector<long>{1}))
                    for (long b = 0; b < ks::NUM_BLOCK_IDS; b += 3) { Task t; t.cfg = c; t.kind = 2; t.nblocks = 2; t.rep = rep; t.b0_lo = b; t.b0_hi = b + 3; tasks.push_back(t); }
            }
        }
        fam_bounds = thorough ? "; irr family (hashed irregular keys with duplicates, power-of-two gaps and jumps for every n in 9..400 / 9..1200, every configuration); randtop / unitop families (300 and 77 pseudo-randomly spaced keys, and 50..649 keys drawn uniformly from the 1000..20999 values below the reserved one, all ending at the largest valid key; 120 / 600 and 360 / 1800 seeds, every configuration); capacity family (clusters of Epsilon^2+1 keys, every cluster count in a window of 75-150 values: the segment array grows during the construction of an upper level); span family (clusters spread over the whole domain of the key type, 18 cluster counts x 9 end offsets, every configuration); seam family n=32768+{0,1,7}, chunks {2,3,4,5,7,16,19,20}, all 4096 window words at every seam (and at the first/last seam alone); blocks family: 1 block x rep {1,50,400}, 2 blocks x rep {1,20}; density family: all 1024 five-digit words x 300 clusters"
                              : "; irr family (hashed irregular keys with duplicates, power-of-two gaps and jumps for every n in 9..400 / 9..1200, every configuration); randtop / unitop families (300 and 77 pseudo-randomly spaced keys, and 50..649 keys drawn uniformly from the 1000..20999 values below the reserved one, all ending at the largest valid key; 120 / 600 and 360 / 1800 seeds, every configuration); capacity family (clusters of Epsilon^2+1 keys, every cluster count in a window of 75-150 values: the segment array grows during the construction of an upper level); span family (clusters spread over the whole domain of the key type, 11 cluster counts x 9 end offsets, every configuration); seam family n=32768, chunks {2,20}, all 4096 window words at every seam; blocks family: 1 block x rep {1,50}, 2 blocks x rep 1; density family (also placed at 3/4 of the key domain and, for signed keys, at 3/4 of the negative half, for three words; single blocks of 4090..4101 and 8186..8197 clusters; a stretch member: 74,000 clusters, one run of 3,680,000 consecutive keys, 6,000 clusters): all 256 four-digit words of gap multipliers x 300 clusters (several segments per upper level), skewed variants with a 3x/30x jump, and 44000-cluster variants (plain, and 'chunk-tail' with a key-space jump 1/3 clusters before every chunk boundary over a zig-zag background) whose upper levels are built by the chunked builder; long-run family: a duplicate run from around a chunk start to around a chunk end, every start/end offset; two-run family: a run ending 1..3 slots before a chunk end followed by a run that starts on the last slot and continues into the next chunk";
    }

    if (asan_quick) std::stable_sort(tasks.begin(), tasks.end(), [](const Task &a, const Task &b) { return (a.kind != 0) > (b.kind != 0); });   // few large-input cases first
    run.run_tasks(tasks.size(), [&](uint64_t ti) {
        const Task &t = tasks[ti];
        auto &e = reg[t.cfg];
        if (run.deadline_passed()) return;
        if (t.kind == 0) e.small(run, cn, prop, t.palette, t.len, t.first);
        else if (t.kind == 1) {
            for (long w = t.word_lo; w < t.word_hi && !run.deadline_passed(); ++w) {
                ks::FamilySpec s; s.kind = "seam"; s.n = t.n; s.chunks = t.p; s.seam = t.seam; s.word = w;
                if (w == t.word_lo + 17) run.sample(std::string("cfg=") + e.name + " family=" + s.str());
                e.family(run, cn, prop, s);
            }
        } else if (t.kind == 3) {
            for (long w = t.word_lo; w < t.word_hi && !run.deadline_passed(); ++w) {
                if (t.seam > 0 && t.seam < 4 && w % 4 != 0 && !t.first) continue;
                ks::FamilySpec s; s.kind = "density"; s.chunks = t.p; s.rep = t.rep; s.width = t.n; s.word = w; s.seam = t.seam; s.top = t.first;
                if (w == t.word_lo + 3 && w % 64 == 3) run.sample(std::string("cfg=") + e.name + " family=" + s.str());
                e.family(run, cn, prop, s);
            }
        } else if (t.kind == 6) {
            for (long c = t.word_lo; c < t.word_hi && !run.deadline_passed(); ++c) {
                ks::FamilySpec s; s.kind = "density"; s.chunks = 1; s.rep = c; s.width = 1; s.word = c % 4;
                e.family(run, cn, prop, s);
            }
        } else if (t.kind == 12) {
            for (long n = t.word_lo; n < t.word_hi && !run.deadline_passed(); ++n) for (long sd : (opt.tier == "thorough" ? std::vector<long>{n % 5, 5 + n % 7, 12 + n % 3} : std::vector<long>{n % 5})) {
                ks::FamilySpec s; s.kind = "irr"; s.chunks = 1; s.rep = n; s.word = sd;
                if (n == 64) run.sample(std::string("cfg=") + e.name + " family=" + s.str());
                e.family(run, cn, prop, s);
            }
        } else if (t.kind == 11) {
            for (long w = t.word_lo; w < t.word_hi && !run.deadline_passed(); ++w) {
                for (long nkeys : {300L, 77L}) {
                    ks::FamilySpec s; s.kind = "randtop"; s.chunks = 1; s.rep = nkeys; s.word = w;
                    if (w == 52 && nkeys == 300) run.sample(std::string("cfg=") + e.name + " family=" + s.str());
                    e.family(run, cn, prop, s);
                }
                for (long k = 0; k < 3; ++k) { ks::FamilySpec s; s.kind = "unitop"; s.chunks = 1; s.word = 3 * w + k; e.family(run, cn, prop, s); }
            }
        } else if (t.kind == 10) {
            long E = long(e.eps);
            for (long a : {1L, 2L, 3L}) for (long L : {1L, E + 1, 2 * E + 2, 4 * E + 4, 200L}) for (long so : {-1L, 0L, 1L, 50L}) {
                if (run.deadline_passed()) break;
                ks::FamilySpec s; s.kind = "tworuns"; s.n = t.n; s.chunks = t.p; s.seam = t.seam; s.width = a; s.rep = L; s.word = so;
                if (a == 2 && L == 200 && so == 0) run.sample(std::string("cfg=") + e.name + " family=" + s.str());
                e.family(run, cn, prop, s);
            }
        } else if (t.kind == 9) {
            ks::FamilySpec s; s.kind = "stretch"; s.chunks = 1; s.rep = t.rep; s.n = t.n; s.width = t.word_lo;
            run.sample(std::string("cfg=") + e.name + " family=" + s.str());
            e.family(run, cn, prop, s);
        } else if (t.kind == 8) {
            for (long c = t.word_lo; c < t.word_hi && !run.deadline_passed(); ++c) for (long w : {0L, 5L}) {
                ks::FamilySpec s; s.kind = "capacity"; s.chunks = 1; s.rep = c; s.n = 0; s.word = w;
                if (c == t.word_lo + 7 && w == 0) run.sample(std::string("cfg=") + e.name + " family=" + s.str());
                e.family(run, cn, prop, s);
            }
        } else if (t.kind == 7) {
            for (long S : (thorough ? std::vector<long>{2, 3, 4, 5, 9, 17, 33, 63, 64, 65, 100, 127, 128, 129, 257, 1000, 4097, 20000} : std::vector<long>{2, 3, 5, 17, 63, 64, 65, 100, 257, 1000, 4097}))
                for (long lo : {0L, 1L, 7L}) for (long hi : {0L, 1L, 7L}) {
                    if (run.deadline_passed()) break;
                    ks::FamilySpec s; s.kind = "span"; s.chunks = 1; s.rep = S; s.width = lo; s.word = hi;
                    if (S == 65 && lo == 1 && hi == 0) run.sample(std::string("cfg=") + e.name + " family=" + s.str());
                    e.family(run, cn, prop, s);
                }
        } else if (t.kind == 5) {
            ks::FamilySpec s; s.kind = "chunktail"; s.chunks = t.p; s.rep = t.rep; s.word = t.word_lo; s.width = t.word_hi; s.n = t.n;
            if (t.p == 16 && t.word_lo == 2) run.sample(std::string("cfg=") + e.name + " family=" + s.str());
            e.family(run, cn, prop, s);
        } else if (t.kind == 4) {
            for (long so : {-2L, -1L, 0L, 1L}) for (long eo : {-3L, -2L, -1L, 0L, 1L}) {
                if (run.deadline_passed()) break;
                ks::FamilySpec s; s.kind = "longrun"; s.n = t.n; s.chunks = t.p; s.seam = t.seam; s.rep = t.rep; s.width = so; s.word = eo;
                if (so == 0 && eo == -1 && t.seam == 1) run.sample(std::string("cfg=") + e.name + " family=" + s.str());
                e.family(run, cn, prop, s);
            }
        } else {
            for (long b0 = t.b0_lo; b0 < t.b0_hi; ++b0) {
                if (!ks::block_id_canonical(b0)) continue;
                if (t.nblocks == 1) {
                    ks::FamilySpec s; s.kind = "blocks"; s.chunks = 1; s.rep = t.rep; s.blocks = {b0};
                    e.family(run, cn, prop, s);
                } else {
                    for (long b1 = 0; b1 < ks::NUM_BLOCK_IDS && !run.deadline_passed(); ++b1) {
                        if (!ks::block_id_canonical(b1)) continue;
                        ks::FamilySpec s; s.kind = "blocks"; s.chunks = 1; s.rep = t.rep; s.blocks = {b0, b1};
                        if (b1 == 77 && b0 % 30 == 0) run.sample(std::string("cfg=") + e.name + " family=" + s.str());
                        e.family(run, cn, prop, s);
                    }
                }
            }
        }
    });

    mc::Run::EvidenceExtra ev;
    ev.states_counter = "arrays_built"; ev.transitions_counter = "searches_checked"; ev.nontrivial_counter = "arrays_with_2plus_distinct_keys";
    std::string cfglist;
    for (int c : cfgs) cfglist += std::string(cfglist.empty() ? "" : " ") + reg[c].name;
    ev.rule = "every non-decreasing sequence of length 1.." + std::to_string(N) + " over each 10-value palette (dense at lowest(), dense mid-range, dense below the reserved value, mixed gaps/extremes; float palettes keep away from zero) for each template configuration, times every query of the alphabet (palette values, +-1 / adjacent representable values, gap midpoints, lowest(), max-1, far values)" + fam_bounds +
              ". A state is one built index (distinct input array); a transition is one search() checked against std::lower_bound on the caller's array. Non-trivial: the array has at least two distinct keys.";
    ev.bounds = "N<=" + std::to_string(N) + ", " + std::to_string(cfgs.size()) + " configurations: " + cfglist;
    ev.assumptions = {"template parameters are explored as a finite table, not for every value in 1..1024",
                      "harness compiled from /repo working tree with -O2 -DNDEBUG -march=native (the flags of the shipped test build), OpenMP chunking sequentialised by answering omp_get_num_procs/omp_get_max_threads from the harness",
                      "oracle: std::lower_bound / std::binary_search on the input array"};
    return run.finish(ev);
}
