// Engine `segmentation`: bounded-exhaustive exploration of the piecewise-linear builder (C03, C04) on the real code.
// Hook H1 records every point the builder is fed and where it closes a segment; the oracles are an exact rational
// evaluation of the reported line (C03) and an independent exact feasibility test for "one line stabs all bands" (C04).
#include "../mc/common.hpp"
#include "keyspace.hpp"

namespace verif {
struct CallMeta { size_t n, start, end, eps; size_t pt_begin, pt_end; std::vector<size_t> seg_starts; };
std::vector<CallMeta> calls;
size_t total_points = 0;
bool logging = false;
template<typename K> struct Log { static std::vector<std::pair<K, size_t>> pts; };
template<typename K> std::vector<std::pair<K, size_t>> Log<K>::pts;
inline void on_begin(size_t n, size_t start, size_t end, size_t eps) {
    if (!logging) return;
    calls.push_back({n, start, end, eps, total_points, total_points, {}});
}
template<typename K> inline void on_point(K x, size_t y) {
    if (!logging) return;
    Log<K>::pts.emplace_back(x, y);
    ++total_points;
    auto &c = calls.back();
    if (c.pt_end == c.pt_begin) c.seg_starts.push_back(c.pt_begin);
    c.pt_end = total_points;
}
inline void on_segment() {   // the point logged last was refused by the current segment and starts the next one
    if (!logging) return;
    calls.back().seg_starts.push_back(total_points - 1);
}
template<typename K> void reset() { calls.clear(); Log<K>::pts.clear(); total_points = 0; }
int chunks = 1;   // the number of construction chunks the property allows: min(processors, max threads, 20)
int env = 0;      // how the environment reports it: 0 processors = threads = chunks; 1 more threads requested than processors; 2 fewer
}
#define PGM_INDEX_VERIF_BEGIN(n, start, end, epsilon) verif::on_begin(n, start, end, epsilon)
#define PGM_INDEX_VERIF_POINT(x, y) verif::on_point(x, y)
#define PGM_INDEX_VERIF_SEGMENT() verif::on_segment()

#include "pgm/pgm_index.hpp"
#include "pgm/pgm_index_variants.hpp"

extern "C" int omp_get_num_procs(void) noexcept { return verif::env == 2 ? verif::chunks + 5 : verif::chunks; }
extern "C" int omp_get_max_threads(void) noexcept { return verif::env == 1 ? verif::chunks + 3 : verif::chunks; }
extern "C" int omp_get_thread_num(void) noexcept { return 0; }      // pragmas are ignored in this build: every parallel region runs as a team of one
extern "C" int omp_get_num_threads(void) noexcept { return 1; }
extern "C" int omp_in_parallel(void) noexcept { return 0; }
extern "C" void omp_set_num_threads(int) noexcept {}
extern "C" int omp_get_thread_limit(void) noexcept { return 1; }

#include "ompbind.hpp"

using mc::Run;
typedef __int128 i128;

struct Cn {
    int arrays, nontrivial, points, segments, calls, chunked, line_checks, maximality_checks, pgm_builds, upper_calls, multi_seg, family;
    explicit Cn(Run &r) {
        arrays = r.counter("arrays_segmented"); nontrivial = r.counter("arrays_with_2plus_distinct_keys"); points = r.counter("points_fed_and_checked");
        segments = r.counter("segments_checked"); calls = r.counter("builder_calls_checked"); chunked = r.counter("chunked_segmentations");
        line_checks = r.counter("point_vs_line_checks"); maximality_checks = r.counter("maximality_checks_against_exact_oracle");
        pgm_builds = r.counter("pgm_index_builds_checked"); upper_calls = r.counter("upper_level_calls_checked"); multi_seg = r.counter("arrays_with_2plus_segments");
        family = r.counter("large_family_arrays");
    }
};

// ---- exact feasibility oracle: does one line pass through all bands [max(y-eps,0), y+eps] at the given x? ------------------
// A line y = a*x + b stabs all bands iff max_{i<j} (lo_j - hi_i)/(x_j - x_i) <= min_{i<j} (hi_j - lo_i)/(x_j - x_i)
// (eliminate b from lo_i <= a*x_i + b <= hi_i). Rationals are compared by cross-multiplication in 128-bit integers.
struct Frac { i128 num, den; };   // den > 0
inline bool frac_less(const Frac &a, const Frac &b) { return a.num * b.den < b.num * a.den; }
// Reference implementation: all pairs, O(m) per added point.
struct StabberNaive {
    std::vector<i128> xs; std::vector<long long> lo, hi;
    bool has = false; Frac lower{0, 1}, upper{0, 1};
    long long eps;
    explicit StabberNaive(long long e) : eps(e) {}
    void clear() { xs.clear(); lo.clear(); hi.clear(); has = false; }
    bool try_add(i128 x, long long y) {
        long long l = y - eps < 0 ? 0 : y - eps, h = y + eps;
        bool h2 = has; Frac lw = lower, up = upper;
        for (size_t i = 0; i < xs.size(); ++i) {
            i128 dx = x - xs[i];
            Frac a{i128(l - hi[i]), dx}, b{i128(h - lo[i]), dx};
            if (!h2) { lw = a; up = b; h2 = true; }
            else { if (frac_less(lw, a)) lw = a; if (frac_less(b, up)) up = b; }
        }
        if (h2 && frac_less(up, lw)) return false;
        xs.push_back(x); lo.push_back(l); hi.push_back(h); has = h2; lower = lw; upper = up;
        return true;
    }
};
// Same test, but only the vertices of the convex hulls of the upper ends (x_i, hi_i) and of the lower ends (x_i, lo_i) are kept
// as partners for future points: (l - hi_i)/(x - x_i) is a linear-fractional function of (x_i, hi_i) with positive denominator, so
// its maximum over the earlier points is attained at a vertex of their convex hull (likewise the minimum for the upper bound).
// Constraints between earlier pairs are already folded into lower/upper. Used for long segments; cross-checked against the
// naive version on every small-scope array.
struct Hull {
    std::vector<std::pair<i128, long long>> up, dn;   // upper and lower chains, x increasing
    static i128 cross(const std::pair<i128, long long> &o, const std::pair<i128, long long> &a, const std::pair<i128, long long> &b) {
        return (a.first - o.first) * i128(b.second - o.second) - i128(a.second - o.second) * (b.first - o.first);
    }
    void clear() { up.clear(); dn.clear(); }
    void add(i128 x, long long y) {
        std::pair<i128, long long> p{x, y};
        while (up.size() >= 2 && cross(up[up.size() - 2], up.back(), p) >= 0) up.pop_back();
        up.push_back(p);
        while (dn.size() >= 2 && cross(dn[dn.size() - 2], dn.back(), p) <= 0) dn.pop_back();
        dn.push_back(p);
    }
};
struct Stabber {
    Hull hi_pts, lo_pts; size_t count = 0;
    bool has = false; Frac lower{0, 1}, upper{0, 1};
    long long eps;
    explicit Stabber(long long e) : eps(e) {}
    void clear() { hi_pts.clear(); lo_pts.clear(); has = false; count = 0; }
    bool try_add(i128 x, long long y) {
        long long l = y - eps < 0 ? 0 : y - eps, h = y + eps;
        bool h2 = has; Frac lw = lower, up = upper;
        auto cand_lower = [&](const std::pair<i128, long long> &p) { Frac a{i128(l - p.second), x - p.first}; if (!h2) { lw = a; } else if (frac_less(lw, a)) lw = a; };
        auto cand_upper = [&](const std::pair<i128, long long> &p) { Frac b{i128(h - p.second), x - p.first}; if (!h2) { up = b; } else if (frac_less(b, up)) up = b; };
        if (count > 0) {
            // first candidate initialises both bounds
            { Frac a{i128(l - hi_pts.up[0].second), x - hi_pts.up[0].first}; Frac b{i128(h - lo_pts.up[0].second), x - lo_pts.up[0].first};
              if (!h2) { lw = a; up = b; h2 = true; } else { if (frac_less(lw, a)) lw = a; if (frac_less(b, up)) up = b; } }
            for (auto &p : hi_pts.up) cand_lower(p);
            for (auto &p : hi_pts.dn) cand_lower(p);
            for (auto &p : lo_pts.up) cand_upper(p);
            for (auto &p : lo_pts.dn) cand_upper(p);
        }
        if (h2 && frac_less(up, lw)) return false;
        hi_pts.add(x, h); lo_pts.add(x, l); ++count; has = h2; lower = lw; upper = up;
        return true;
    }
};

template<typename K>
struct Checker {
    Run &run; Cn &cn; int prop;   // 3 or 4
    using CS = typename pgm::internal::OptimalPiecewiseLinearModel<K, size_t>::CanonicalSegment;
    static constexpr bool is_float = std::is_floating_point_v<K>;

    std::string case_of(const std::string &desc, size_t eps, const char *mode) {
        return std::string("key=") + kname() + " eps=" + std::to_string(eps) + " mode=" + mode + " chunks=" + std::to_string(verif::chunks) + " env=" + std::to_string(verif::env) + " " + desc;
    }
    static const char *kname() {
        static const char *names[] = {"u8", "i8", "u16", "i16", "u32", "i32", "u64", "i64", "f32", "f64", "ll", "ull", "?"};
        return names[ks::key_class<K>()];
    }

    // Greedy maximal partition of the points of one call by the exact oracle must equal the builder's partition.
    bool check_maximality(const verif::CallMeta &c, const std::string &cs) {
        if constexpr (is_float) return true;
        else {
            auto &pts = verif::Log<K>::pts;
            Stabber st((long long) c.eps);
            StabberNaive ref((long long) c.eps);
            bool small = c.pt_end - c.pt_begin <= 24;   // cross-check the two oracle implementations on small inputs
            size_t seg = 0;
            for (size_t i = c.pt_begin; i < c.pt_end; ++i) {
                bool starts_here = seg < c.seg_starts.size() && c.seg_starts[seg] == i;
                i128 x = i128(pts[i].first); long long y = (long long) pts[i].second;
                run.add(cn.maximality_checks);
                if (starts_here) {
                    if (i != c.pt_begin) {
                        bool fits = st.try_add(x, y);
                        if (small && fits != ref.try_add(x, y)) { run.harness_error("stabbing oracles disagree: " + cs); return false; }
                        if (fits) {
                            run.violation(cs, "segment is not maximal: an exact line exists through its points plus the first point of the next segment (point #" + std::to_string(i - c.pt_begin) + " of the call, x=" + mc::key_str(pts[i].first) + ")");
                            return false;
                        }
                        size_t y_prev = pts[c.seg_starts[seg - 1]].second;
                        if (!(size_t(y) > y_prev + 2 * c.eps)) { run.violation(cs, "consecutive segment starts are not more than 2*epsilon ranks apart"); return false; }
                    }
                    st.clear(); ref.clear(); ++seg;
                }
                bool ok = st.try_add(x, y);
                if (small && ok != ref.try_add(x, y)) { run.harness_error("stabbing oracles disagree: " + cs); return false; }
                if (!ok) {
                    run.violation(cs, "builder kept a point in a segment although no line is within epsilon of all its points (point #" + std::to_string(i - c.pt_begin) + ", x=" + mc::key_str(pts[i].first) + ")");
                    return false;
                }
            }
            if (seg != c.seg_starts.size()) { run.harness_error("segment starts not consumed: " + cs); return false; }
            return true;
        }
    }

    // Optimal number of segments for a point sequence (greedy with the exact oracle is optimal: feasibility is closed under subsets)
    size_t optimal_count(size_t pt_begin, size_t pt_end, size_t eps) {
        if constexpr (is_float) return 0;
        else {
            auto &pts = verif::Log<K>::pts;
            Stabber st((long long) eps); size_t cnt = 0;
            for (size_t i = pt_begin; i < pt_end; ++i) {
                if (cnt == 0 || !st.try_add(i128(pts[i].first), (long long) pts[i].second)) { st.clear(); st.try_add(i128(pts[i].first), (long long) pts[i].second); ++cnt; }
            }
            return cnt;
        }
    }

    // One direct invocation of the builder (sequential or chunked) on data.
    void check_direct(const std::vector<K> &data, size_t eps, bool par, const std::string &desc) {
        const char *mode = par ? "par" : "seq";
        std::string cs = case_of(desc, eps, mode);
        run.set_case(cs);
        run.add(cn.arrays);
        if (data.front() != data.back()) run.add(cn.nontrivial);
        verif::reset<K>();
        std::vector<CS> segs;
        auto in = [&](size_t i) { return data[i]; };
        auto out = [&](const CS &s) { segs.push_back(s); };
        size_t n = data.size(), ret = 0;
        verif::logging = true;
        try {
            ret = par ? pgm::internal::make_segmentation_par(n, eps, in, out) : pgm::internal::make_segmentation(n, eps, in, out);
        } catch (const std::exception &e) { verif::logging = false; run.violation(cs, std::string("builder threw on valid sorted data: ") + e.what()); return; }
        verif::logging = false;
        auto &pts = verif::Log<K>::pts;
        auto &calls = verif::calls;
        if (calls.size() > 1) run.add(cn.chunked);
        if (segs.size() >= 2) run.add(cn.multi_seg);
        run.add(cn.calls, calls.size()); run.add(cn.points, pts.size()); run.add(cn.segments, segs.size());

        // return value == number of segments
        size_t logged_segments = 0;
        for (auto &c : calls) logged_segments += c.seg_starts.size();
        if (ret != segs.size() || logged_segments != segs.size()) { run.violation(cs, "return value / emitted segments / logged segments disagree: " + std::to_string(ret) + "/" + std::to_string(segs.size()) + "/" + std::to_string(logged_segments)); return; }
        // points strictly increasing in x over the whole invocation
        for (size_t i = 1; i < pts.size(); ++i) if (!(pts[i - 1].first < pts[i].first)) { run.violation(cs, "points fed to the builder are not strictly increasing in x at #" + std::to_string(i)); return; }
        // every distinct key is fed at its first-occurrence rank
        {
            size_t j = 0;
            for (size_t i = 0; i < n; ++i) {
                if (i > 0 && data[i] == data[i - 1]) continue;
                while (j < pts.size() && pts[j].first < data[i]) ++j;
                if (j == pts.size() || !(pts[j].first == data[i]) || pts[j].second != i) { run.violation(cs, "key " + mc::key_str(data[i]) + " was not fed at its first-occurrence rank " + std::to_string(i)); return; }
            }
        }
        // segments in increasing first-key order; each point in exactly one segment by log position and by key interval
        std::vector<size_t> starts;
        for (auto &c : calls) for (auto s : c.seg_starts) starts.push_back(s);
        for (size_t s = 0; s < segs.size(); ++s) {
            if (s > 0 && !(segs[s - 1].get_first_x() < segs[s].get_first_x())) { run.violation(cs, "segments not in strictly increasing first-key order"); return; }
            if (!(segs[s].get_first_x() == pts[starts[s]].first)) { run.violation(cs, "segment first key differs from the key of its first point"); return; }
        }
        if (prop == 3) {
            for (size_t s = 0; s < segs.size(); ++s) {
                size_t b = starts[s], e = s + 1 < segs.size() ? starts[s + 1] : pts.size();
                K first_x = segs[s].get_first_x();
                auto [slope_ld, icpt] = segs[s].get_floating_point_segment(first_x);
                for (size_t i = b; i < e; ++i) {
                    run.add(cn.line_checks);
                    K x = pts[i].first; size_t y = pts[i].second;
                    // by key interval
                    if (x < first_x || (s + 1 < segs.size() && !(x < segs[s + 1].get_first_x()))) { run.violation(cs, "point does not fall in the key interval of the segment that absorbed it"); return; }
                    if constexpr (is_float) {
                        long double v = slope_ld * ((long double) x - (long double) first_x) + (long double) icpt;
                        long double err = v - (long double) y; if (err < 0) err = -err;
                        if (!(err <= (long double) eps + 1.0L + 1e-3L)) { run.violation(cs, "reported line is farther than epsilon+1 from point (x=" + mc::key_str(x) + ", rank " + std::to_string(y) + "): error " + std::to_string((double) err)); return; }
                    } else {
                        i128 dy = 0, dx = 1;
                        if (!segs[s].one_point()) {
                            dy = i128(segs[s].rectangle[3].y) - i128(segs[s].rectangle[1].y);
                            dx = i128(segs[s].rectangle[3].x) - i128(segs[s].rectangle[1].x);
                            if (dx <= 0) { run.violation(cs, "canonical segment has non-positive dx"); return; }
                            long double want = (long double) dy / (long double) dx;
                            if (slope_ld != want) { run.violation(cs, "reported slope differs from dy/dx of the canonical segment"); return; }
                        } else if (slope_ld != 0) { run.violation(cs, "one-point segment reported a non-zero slope"); return; }
                        i128 lhs = 2 * (dx * (i128(icpt) - i128(y)) + dy * (i128(x) - i128(first_x)));
                        if (lhs < 0) lhs = -lhs;
                        i128 rhs = 2 * dx * i128(eps) + dx;
                        if (lhs > rhs) { run.violation(cs, "reported line is farther than epsilon+1/2 from point (x=" + mc::key_str(x) + ", rank " + std::to_string(y) + ")"); return; }
                    }
                }
            }
        } else {
            size_t total = 0;
            for (auto &c : calls) { if (!check_maximality(c, cs)) return; total += c.seg_starts.size(); }
            if constexpr (!is_float) {
                size_t opt = optimal_count(0, pts.size(), eps);
                // c as the property defines it: 1 below the chunking threshold or with one thread, else min(threads, 20)
                size_t c_allowed = (n < (size_t(1) << 15) || verif::chunks <= 1 || !par) ? 1 : size_t(std::min(verif::chunks, 20));
                if (calls.size() > c_allowed) { run.violation(cs, "the build was split into " + std::to_string(calls.size()) + " chunks, the property allows " + std::to_string(c_allowed) + " for n=" + std::to_string(n)); return; }
                if (total > opt + c_allowed - 1) { run.violation(cs, "build used " + std::to_string(total) + " segments, more than optimum " + std::to_string(opt) + " + c-1 with c=" + std::to_string(c_allowed)); return; }
                if (calls.size() == 1 && total != opt) { run.violation(cs, "sequential build used " + std::to_string(total) + " segments, optimum is " + std::to_string(opt)); return; }
                if (total > opt + calls.size() - 1) { run.violation(cs, "chunked build used " + std::to_string(total) + " segments, more than optimum " + std::to_string(opt) + " + chunks-1"); return; }
            }
        }
    }

    // Witness family: data for which the harness exhibits (exact arithmetic) one line within epsilon of every point the builder is fed,
    // so the minimum is one segment and a sequential build must emit exactly one — an O(n) oracle that works where the hulls of a
    // single segment hold more than 2^16 vertices (the exact optimum of check_direct is quadratic there).
    void check_witness(const std::vector<K> &data, size_t eps, const std::string &desc) {
        std::string cs = case_of(desc, eps, "seq");
        run.set_case(cs); run.add(cn.arrays); run.add(cn.nontrivial);
        verif::reset<K>();
        std::vector<CS> segs;
        auto in = [&](size_t i) { return data[i]; };
        auto out = [&](const CS &s) { segs.push_back(s); };
        size_t ret = 0;
        verif::logging = true;
        try { ret = pgm::internal::make_segmentation(data.size(), eps, in, out); }
        catch (const std::exception &e) { verif::logging = false; run.violation(cs, std::string("builder threw on valid sorted data: ") + e.what()); return; }
        verif::logging = false;
        auto &pts = verif::Log<K>::pts;
        run.add(cn.points, pts.size()); run.add(cn.segments, segs.size());
        if (pts.size() < data.size()) { run.violation(cs, "fewer points fed to the builder than there are distinct keys"); return; }
        if constexpr (!is_float) {
            // witness: the chord from the first to the last point fed
            i128 x0 = i128(pts.front().first), y0 = i128(pts.front().second), dx = i128(pts.back().first) - x0, dy = i128(pts.back().second) - y0;
            for (auto &pt : pts) {
                i128 d = dy * (i128(pt.first) - x0) - (i128(pt.second) - y0) * dx; if (d < 0) d = -d;
                if (d > i128(eps) * dx) { run.harness_error("witness family member: the chord is not within epsilon of every point"); return; }
            }
            if (ret != 1 || segs.size() != 1) run.violation(cs, "sequential build used " + std::to_string(segs.size()) + " segments although one line (the chord from the first to the last point) is within epsilon of all " + std::to_string(pts.size()) + " points: optimum is 1");
        }
    }

    // A whole PGMIndex build: every builder call (bottom level, possibly chunked, and every upper level) must be maximal with its own
    // epsilon, and segments_count() must obey the bound of C04.
    template<size_t E, size_t R>
    void check_pgm(const std::vector<K> &data, const std::string &desc) {
        std::string cs = case_of(desc, E, ("pgm_R" + std::to_string(R)).c_str());
        run.set_case(cs);
        verif::reset<K>();
        verif::logging = true;
        pgm::PGMIndex<K, E, R, float> *idx = nullptr;
        try { idx = new pgm::PGMIndex<K, E, R, float>(data.begin(), data.end()); }
        catch (const std::exception &e) { verif::logging = false; run.violation(cs, std::string("PGMIndex construction threw: ") + e.what()); return; }
        verif::logging = false;
        run.add(cn.pgm_builds);
        size_t n = data.size();
        size_t c0 = 0;
        for (auto &c : verif::calls) {
            run.add(cn.calls);
            if (c.n == n && c0 < 64 && (c0 == 0 || verif::calls[0].n == c.n) && &c - &verif::calls[0] == (long) c0) ++c0;
        }
        // the first c0 calls are the chunks of the bottom level (same n, consecutive)
        size_t bottom_calls = 0;
        for (size_t i = 0; i < verif::calls.size(); ++i) { if (verif::calls[i].n == n && i == bottom_calls && (i == 0 || verif::calls[i].start > verif::calls[i - 1].start)) ++bottom_calls; else break; }
        if (bottom_calls == 0) bottom_calls = 1;
        for (size_t i = 0; i < verif::calls.size(); ++i) {
            auto &c = verif::calls[i];
            size_t want_eps = i < bottom_calls ? E : R;
            if (c.eps != want_eps) { run.violation(cs, "builder call #" + std::to_string(i) + " ran with epsilon " + std::to_string(c.eps) + ", expected " + std::to_string(want_eps)); return; }
            if (i >= bottom_calls) run.add(cn.upper_calls);
            if (!check_maximality(c, cs)) return;
        }
        {   // the finished bottom level: strictly increasing segment keys (no redundant twin of a segment), and no more segments than the
            // builder emitted plus the single closing segment build() may append
            size_t cnt = idx->segments_count(), builder_segments = 0;
            for (size_t i = 0; i < bottom_calls; ++i) builder_segments += verif::calls[i].seg_starts.size();
            for (size_t i = 1; i < cnt; ++i) if (!(idx->segments[i - 1].key < idx->segments[i].key)) { run.violation(cs, "bottom-level segment keys are not strictly increasing: segment " + std::to_string(i) + " starts at the same key as its predecessor (redundant segment)"); delete idx; return; }
            if (cnt > builder_segments + 1) { run.violation(cs, "segments_count() " + std::to_string(cnt) + " exceeds the " + std::to_string(builder_segments) + " segments the builder emitted plus one closing segment"); delete idx; return; }
        }
        if (idx->segments_count() > n / (2 * E + 1) + bottom_calls + 1)
            run.violation(cs, "segments_count() " + std::to_string(idx->segments_count()) + " exceeds floor(n/(2*eps+1)) + c + 1 with c=" + std::to_string(bottom_calls));
        delete idx;
    }

    // CompressedPGMIndex builds its levels with the same builder: the bottom level with Epsilon, every upper level with EpsilonRecursive,
    // each call maximal
    template<size_t E, size_t R>
    void check_compressed(const std::vector<K> &data, const std::string &desc) {
        if constexpr (std::is_unsigned_v<K>) {
            std::string cs = case_of(desc, E, ("compressed_R" + std::to_string(R)).c_str());
            run.set_case(cs);
            verif::reset<K>();
            verif::logging = true;
            try { pgm::CompressedPGMIndex<K, E, R, float> idx(data.begin(), data.end()); (void) idx.size_in_bytes(); }
            catch (const std::exception &e) { verif::logging = false; run.violation(cs, std::string("CompressedPGMIndex construction threw: ") + e.what()); return; }
            verif::logging = false;
            run.add(cn.pgm_builds);
            for (size_t i = 0; i < verif::calls.size(); ++i) {
                auto &c = verif::calls[i];
                run.add(cn.calls);
                size_t want_eps = i == 0 ? E : R;
                if (c.eps != want_eps) { run.violation(cs, "builder call #" + std::to_string(i) + " ran with epsilon " + std::to_string(c.eps) + ", expected " + std::to_string(want_eps)); return; }
                if (i > 0) run.add(cn.upper_calls);
                if (!check_maximality(c, cs)) return;
            }
        }
    }

    void small_scope(size_t eps, int palette_id, int len, int first, int with_pgm) {
        auto pal = ks::palette<K>(palette_id);
        std::vector<K> data(len);
        bool sampled = false;
        mc::for_each_multiset(int(pal.size()), len, first, [&](const std::vector<int> &idx) {
            for (int i = 0; i < len; ++i) data[i] = pal[idx[i]];
            std::string desc = "data=" + mc::keys_str(data);
            if (!sampled && len >= 5 && first == (palette_id * 3 + len + int(eps)) % 10 && idx[len - 1] != idx[0] && idx[1] != idx[0]) { run.sample(case_of(desc, eps, "seq")); sampled = true; }
            check_direct(data, eps, false, desc);
            if (with_pgm && prop == 4 && !is_float && eps >= 1) {
                if (eps == 1) { check_pgm<1, 1>(data, desc); check_pgm<1, 2>(data, desc); }
                if (eps == 2) check_pgm<2, 1>(data, desc);
            }
            return !run.deadline_passed();
        });
    }

    // builds made earlier in this process with other thread counts (the chunk count must be a function of the current environment only)
    void silent_build(const std::vector<K> &data, size_t eps, int chunks) {
        verif::chunks = chunks; verif::env = 0;
        auto in = [&](size_t i) { return data[i]; };
        size_t cnt = 0; auto out = [&](const CS &) { ++cnt; };
        try { pgm::internal::make_segmentation_par(data.size(), eps, in, out); } catch (...) {}
    }
    void family_history(const std::vector<long> &seq, ks::FamilySpec spec, size_t eps) {
        std::string prior;
        for (long p : seq) {
            spec.chunks = p;
            family(spec, eps, 0, prior.empty() ? "" : "prior_chunks=" + prior + " ");
            prior += (prior.empty() ? "" : ".") + std::to_string(p);
        }
    }
    // The builder object itself: a model that was reset in the middle of another sequence, and two models alive and fed alternately,
    // must cut a sequence exactly where a fresh model cuts it (no state shared between objects or left over by reset()).
    void model_objects(const std::vector<K> &a, const std::vector<K> &b, size_t eps, const std::string &desc) {
        using Model = pgm::internal::OptimalPiecewiseLinearModel<K, size_t>;
        auto distinct = [](const std::vector<K> &v) { std::vector<K> d; for (K x : v) if (d.empty() || d.back() != x) d.push_back(x); return d; };
        std::vector<K> pa = distinct(a), pb = distinct(b);
        auto feed = [](Model &m, K x, size_t y, std::vector<K> &cuts) { if (!m.add_point(x, y)) { cuts.push_back(m.get_segment().get_first_x()); m.add_point(x, y); } };
        auto fresh = [&](const std::vector<K> &p) { Model m(eps); std::vector<K> cuts; for (size_t i = 0; i < p.size(); ++i) feed(m, p[i], i, cuts); cuts.push_back(m.get_segment().get_first_x()); return cuts; };
        std::string cs = case_of(desc, eps, "objects");
        run.set_case(cs); run.add(cn.arrays);
        try {
            auto ra = fresh(pa), rb = fresh(pb);
            {   // two models alive at once, fed alternately
                Model m1(eps), m2(eps); std::vector<K> c1, c2;
                for (size_t i = 0; i < std::max(pa.size(), pb.size()); ++i) { if (i < pa.size()) feed(m1, pa[i], i, c1); if (i < pb.size()) feed(m2, pb[i], i, c2); }
                c1.push_back(m1.get_segment().get_first_x()); c2.push_back(m2.get_segment().get_first_x());
                if (c1 != ra || c2 != rb) { run.violation(cs, "two builder objects fed alternately cut their sequences differently from fresh builders (" + std::to_string(c1.size()) + "/" + std::to_string(ra.size()) + " and " + std::to_string(c2.size()) + "/" + std::to_string(rb.size()) + " segments)"); return; }
            }
            {   // reset() in the middle of a sequence, then another sequence
                Model m(eps); std::vector<K> junk, c;
                for (size_t i = 0; i < pa.size() / 2 + 1 && i < pa.size(); ++i) feed(m, pa[i], i, junk);
                m.reset();
                for (size_t i = 0; i < pb.size(); ++i) feed(m, pb[i], i, c);
                c.push_back(m.get_segment().get_first_x());
                if (c != rb) { run.violation(cs, "a builder object reused after reset() cuts the sequence differently from a fresh builder (" + std::to_string(c.size()) + "/" + std::to_string(rb.size()) + " segments)"); return; }
            }
        } catch (const std::exception &e) { run.violation(cs, std::string("builder object threw on a strictly increasing sequence: ") + e.what()); }
    }

    void family(const ks::FamilySpec &spec, size_t eps, int with_pgm, const std::string &prefix = "") {
        std::vector<K> data, queries;
        if (!ks::generate_family<K>(spec, eps, data, queries)) return;
        verif::chunks = int(spec.chunks);
        verif::env = spec.chunks > 1 ? int((spec.word + spec.seam + spec.rep + spec.n) % 3) : 0;   // oversubscribed / undersubscribed environments
        run.add(cn.family);
        std::string desc = prefix + "family=" + spec.str();
        check_direct(data, eps, true, desc);
        if (with_pgm && prop == 4 && !is_float) {
            if (eps == 1) { check_pgm<1, 1>(data, desc); check_compressed<1, 1>(data, desc); check_compressed<1, 128>(data, desc); }
            if (eps == 8) check_compressed<8, 256>(data, desc);
            if (eps == 4) check_pgm<4, 2>(data, desc);
            if (eps == 8) check_pgm<8, 4>(data, desc);
        }
        verif::chunks = 1; verif::env = 0;
    }

    void replay(const std::map<std::string, std::string> &m) {
        size_t eps = strtoul(m.at("eps").c_str(), nullptr, 10);
        std::string mode = m.at("mode");
        std::vector<K> data, q; std::string desc;
        if (m.count("family")) {
            auto spec = ks::FamilySpec::parse(m.at("family"));
            if (!ks::generate_family<K>(spec, eps, data, q)) { fprintf(stderr, "cannot regenerate family\n"); exit(2); }
            if (m.count("prior_chunks")) for (auto &pc : mc::split(m.at("prior_chunks"), '.')) silent_build(data, eps, atoi(pc.c_str()));
            verif::chunks = int(spec.chunks); desc = (m.count("prior_chunks") ? "prior_chunks=" + m.at("prior_chunks") + " " : "") + "family=" + m.at("family");
        } else if (m.count("witness")) {
            auto pr = mc::split(m.at("witness"), ':'); long shape = atol(pr[0].c_str()), nn = atol(pr[1].c_str());
            if constexpr (std::is_same_v<K, uint64_t>) { uint64_t x = 12345, G = uint64_t(1) << 28; for (long i = 0; i < nn; ++i) { data.push_back(x); x += (shape == 0 ? G - uint64_t(i) : G - uint64_t(nn) + uint64_t(i)); } }
            printf("replay: key=%s eps=%zu witness family n=%zu\n", kname(), eps, data.size());
            check_witness(data, eps, "witness=" + m.at("witness"));
            return;
        } else if (m.count("convex")) {
            auto pr = mc::split(m.at("convex"), ':'); long shape = atol(pr[0].c_str()), lo = atol(pr[1].c_str()), nn = atol(pr[2].c_str());
            if constexpr (std::is_same_v<K, uint64_t>) { if (shape == 0) for (long i = 0; i < nn; ++i) { uint64_t v = uint64_t(lo + i); data.push_back(v * v); } else for (long i = 0; i < nn; ++i) data.push_back(uint64_t(std::sqrt((long double)(lo + i)) * 4000000.0L)); }
            desc = "convex=" + m.at("convex"); if (m.count("chunks")) verif::chunks = atoi(m.at("chunks").c_str());
        } else { data = mc::parse_keys<K>(m.at("data")); desc = "data=" + m.at("data"); if (m.count("chunks")) verif::chunks = atoi(m.at("chunks").c_str()); }
        if (m.count("env")) verif::env = atoi(m.at("env").c_str());
        printf("replay: key=%s eps=%zu mode=%s n=%zu chunks=%d env=%d\n", kname(), eps, mode.c_str(), data.size(), verif::chunks, verif::env);
        if (mode == "seq") check_direct(data, eps, false, desc);
        else if (mode == "par") check_direct(data, eps, true, desc);
        else if constexpr (!is_float) {
            if (mode == "pgm_R1" && eps == 1) check_pgm<1, 1>(data, desc);
            else if (mode == "pgm_R2" && eps == 1) check_pgm<1, 2>(data, desc);
            else if (mode == "pgm_R1" && eps == 2) check_pgm<2, 1>(data, desc);
            else if (mode == "pgm_R2" && eps == 4) check_pgm<4, 2>(data, desc);
            else if (mode == "pgm_R4" && eps == 8) check_pgm<8, 4>(data, desc);
            else if (mode == "compressed_R1" && eps == 1) check_compressed<1, 1>(data, desc);
            else if (mode == "compressed_R128" && eps == 1) check_compressed<1, 128>(data, desc);
            else if (mode == "compressed_R256" && eps == 8) check_compressed<8, 256>(data, desc);
        }
    }
};

struct Task { int key = 0, kind = 0, palette = 0, len = 0, first = 0; size_t eps = 0; long p = 1, n = 0, seam = 0, w_lo = 0, w_hi = 0, rep = 1, nblocks = 1, b_lo = 0, b_hi = 0; };

template<typename K> void run_task(Run &run, Cn &cn, int prop, const Task &t) {
    Checker<K> ck{run, cn, prop};
    if (t.kind == 0) ck.small_scope(t.eps, t.palette, t.len, t.first, 1);
    else if (t.kind == 1) {
        for (long w = t.w_lo; w < t.w_hi && !run.deadline_passed(); ++w) {
            ks::FamilySpec s; s.kind = "seam"; s.n = t.n; s.chunks = t.p; s.seam = t.seam; s.word = w;
            if (w == t.w_lo + 9) run.sample(ck.case_of("family=" + s.str(), t.eps, "par"));
            ck.family(s, t.eps, w % 16 == 0);
        }
    } else if (t.kind == 8) {
        // witness family: gaps shrinking (shape 0) or growing (shape 1) by one per key around 2^28: strictly concave / convex ranks, every
        // point a hull vertex, yet the chord stays within n^2/2^31 ranks of every point
        if constexpr (std::is_same_v<K, uint64_t>) {
            std::vector<K> data; data.reserve(size_t(t.n));
            uint64_t x = 12345, G = uint64_t(1) << 28;
            for (long i = 0; i < t.n; ++i) { data.push_back(x); x += (t.seam == 0 ? G - uint64_t(i) : G - uint64_t(t.n) + uint64_t(i)); }
            ck.check_witness(data, t.eps, "witness=" + std::to_string(t.seam) + ":" + std::to_string(t.n));
        }
    } else if (t.kind == 7) {
        // hashed irregular keys for every n in a window
        for (long n = t.w_lo; n < t.w_hi && !run.deadline_passed(); ++n) {
            ks::FamilySpec s; s.kind = "irr"; s.chunks = 1; s.rep = n; s.word = n % 5; ck.family(s, t.eps, n % 4 == 0);
            if (prop == 3) { ks::FamilySpec s2 = s; s2.rep = n + 3; s2.word = (n + 1) % 5; std::vector<K> a, b, q; if (ks::generate_family<K>(s, t.eps, a, q) && ks::generate_family<K>(s2, t.eps, b, q)) ck.model_objects(a, b, t.eps, "objects=" + s.str() + "+" + s2.str()); }
        }
    } else if (t.kind == 6) {
        // two runs meeting just before a chunk end (see keyspace.hpp)
        for (long a : {1L, 2L, 3L}) for (long L : {1L, long(t.eps) + 1, 2 * long(t.eps) + 2, 200L}) for (long so : {-1L, 0L, 1L, 50L}) {
            if (run.deadline_passed()) break;
            ks::FamilySpec s; s.kind = "tworuns"; s.n = t.n; s.chunks = t.p; s.seam = t.seam; s.width = a; s.rep = L; s.word = so;
            ck.family(s, t.eps, 0);
        }
    } else if (t.kind == 5) {
        // smooth convex / concave data with a large epsilon: one segment whose convex hulls keep more than 2^16 points
        if constexpr (std::is_same_v<K, uint64_t>) {
            std::vector<K> data; data.reserve(size_t(t.n));
            if (t.seam == 0) for (long i = 0; i < t.n; ++i) { uint64_t v = uint64_t(t.w_lo + i); data.push_back(v * v); }                                   // ranks grow like sqrt(key)
            else for (long i = 0; i < t.n; ++i) data.push_back(uint64_t(std::sqrt((long double)(t.w_lo + i)) * 4000000.0L));                          // ranks grow like key^2
            bool ok = true; for (size_t i = 1; i < data.size(); ++i) if (!(data[i - 1] < data[i])) ok = false;
            if (ok) { verif::chunks = int(t.p); ck.check_direct(data, t.eps, true, "convex=" + std::to_string(t.seam) + ":" + std::to_string(t.w_lo) + ":" + std::to_string(t.n)); verif::chunks = 1; }
            else run.harness_error("convex family member is not strictly increasing");
        }
    } else if (t.kind == 4) {
        // one process, several builds with different thread counts in a row
        ks::FamilySpec s; s.kind = "seam"; s.n = t.n; s.seam = 0; s.word = t.w_lo;
        ck.family_history({8, 1, 2, 20, 3, 8, 1}, s, t.eps);
    } else if (t.kind == 3) {
        for (long so : {-2L, -1L, 0L, 1L}) for (long eo : {-3L, -2L, -1L, 0L, 1L}) {
            if (run.deadline_passed()) break;
            ks::FamilySpec s; s.kind = "longrun"; s.n = t.n; s.chunks = t.p; s.seam = t.seam; s.rep = t.rep; s.width = so; s.word = eo;
            ck.family(s, t.eps, 0);
        }
    } else {
        for (long b0 = t.b_lo; b0 < t.b_hi; ++b0) {
            if (!ks::block_id_canonical(b0)) continue;
            if (t.nblocks == 1) { ks::FamilySpec s; s.kind = "blocks"; s.rep = t.rep; s.blocks = {b0}; ck.family(s, t.eps, 1); }
            else for (long b1 = 0; b1 < ks::NUM_BLOCK_IDS && !run.deadline_passed(); ++b1) {
                if (!ks::block_id_canonical(b1)) continue;
                ks::FamilySpec s; s.kind = "blocks"; s.rep = t.rep; s.blocks = {b0, b1};
                if (b1 == 40 && b0 % 45 == 0) run.sample(ck.case_of("family=" + s.str(), t.eps, "par"));
                ck.family(s, t.eps, b1 % 7 == 0);
            }
        }
    }
}

void dispatch(Run &run, Cn &cn, int prop, const Task &t) {
    switch (t.key) {
        case 0: run_task<uint8_t>(run, cn, prop, t); break;
        case 3: run_task<int16_t>(run, cn, prop, t); break;
        case 4: run_task<uint32_t>(run, cn, prop, t); break;
        case 5: run_task<int32_t>(run, cn, prop, t); break;
        case 6: run_task<uint64_t>(run, cn, prop, t); break;
        case 7: run_task<int64_t>(run, cn, prop, t); break;
        case 8: run_task<float>(run, cn, prop, t); break;
        case 9: run_task<double>(run, cn, prop, t); break;
        case 10: run_task<long long>(run, cn, prop, t); break;
        case 11: run_task<unsigned long long>(run, cn, prop, t); break;
    }
}

int main(int argc, char **argv) {
    auto opt = mc::parse_args(argc, argv);
    int prop = opt.property == "C03" ? 3 : opt.property == "C04" ? 4 : 0;
    if (!prop) { fprintf(stderr, "usage: segmentation --prop C03|C04 [--tier ..] [--replay f]\n"); return 2; }
    bool thorough = opt.tier == "thorough";
    Run run(opt, "segmentation");
    Cn cn(run);

    if (!opt.replay.empty()) {
        auto m = mc::parse_case(mc::json_field(mc::read_file(opt.replay), "case"));
        run.opt.write_evidence = false; run.worker_id = 0;
        static const char *names[] = {"u8", "i8", "u16", "i16", "u32", "i32", "u64", "i64", "f32", "f64", "ll", "ull"};
        Task t;
        for (int i = 0; i < 12; ++i) if (m["key"] == names[i]) t.key = i;
        switch (t.key) {
            case 0: Checker<uint8_t>{run, cn, prop}.replay(m); break; case 3: Checker<int16_t>{run, cn, prop}.replay(m); break;
            case 4: Checker<uint32_t>{run, cn, prop}.replay(m); break; case 5: Checker<int32_t>{run, cn, prop}.replay(m); break; case 6: Checker<uint64_t>{run, cn, prop}.replay(m); break;
            case 7: Checker<int64_t>{run, cn, prop}.replay(m); break; case 8: Checker<float>{run, cn, prop}.replay(m); break;
            case 9: Checker<double>{run, cn, prop}.replay(m); break;
            case 10: Checker<long long>{run, cn, prop}.replay(m); break; case 11: Checker<unsigned long long>{run, cn, prop}.replay(m); break;
        }
        auto v = run.sh->violations.load();
        printf("replay verdict: %s\n", v ? "VIOLATION reproduced" : "no violation");
        return v ? 1 : 0;
    }

    int N = thorough ? 10 : 8;
    if (opt.extra.count("N")) N = atoi(opt.extra["N"].c_str());
    std::vector<int> keys = prop == 3 ? std::vector<int>{4, 5, 6, 7, 8, 9, 0, 3, 10, 11} : std::vector<int>{4, 5, 6, 7, 0, 3, 10, 11};   // 10/11: long long / unsigned long long
    std::vector<size_t> epss = {0, 1, 2, 3};
    std::vector<Task> tasks;
    for (int len = 1; len <= N; ++len)
        for (int k : keys)
            for (size_t e : epss) {
                int np = (k == 8 || k == 9) ? 3 : 4;
                if ((k == 0 || k == 3) && e == 3) continue;
                for (int p = 0; p < np; ++p) for (int f = 0; f < 10; ++f) { Task t; t.key = k; t.kind = 0; t.eps = e; t.palette = p; t.len = len; t.first = f; tasks.push_back(t); }
            }
    if (!opt.extra.count("nofamilies")) {
        std::vector<int> fkeys = prop == 3 ? (thorough ? std::vector<int>{6, 4, 9} : std::vector<int>{6, 9}) : std::vector<int>{6, 4};
        for (int k : fkeys) {
            for (size_t e : std::vector<size_t>{1, 4}) {
                if (e == 4 && !thorough) continue;
                std::vector<long> ps = thorough ? std::vector<long>{2, 3, 5, 7, 16, 20} : std::vector<long>{2, 20};
                for (long p : ps) for (long d : (thorough ? std::vector<long>{0, 1, 7} : std::vector<long>{0}))
                    for (long w = 0; w < 4096; w += 64) { Task t; t.key = k; t.kind = 1; t.eps = e; t.n = 32768 + d; t.p = p; t.seam = 0; t.w_lo = w; t.w_hi = w + 64; tasks.push_back(t); }
            }
            // long duplicate runs from around a chunk start to around a chunk end (kind 3)
            for (long pp : (thorough ? std::vector<long>{2, 3, 5, 20} : std::vector<long>{2, 20}))
                for (long j = 0; j < pp; ++j) {
                    if (pp == 20 && !thorough && j > 2 && j < 17) continue;
                    for (long len : {1L, 2L}) { if (j + len > pp) continue; Task t; t.key = k; t.kind = 3; t.eps = 1; t.n = 32768; t.p = pp; t.seam = j; t.rep = len; tasks.push_back(t); }
                }
            // smooth convex / concave data, epsilon 1024: segments of more than 2^16 points whose hulls keep every point
            // (C03 only: the exact feasibility oracle of C04 is quadratic on hulls of this size)
            if (k == 6 && prop == 3) for (long shape : {0L, 1L}) for (long pp : (thorough ? std::vector<long>{1, 4} : std::vector<long>{1})) { Task t; t.key = k; t.kind = 5; t.eps = 1024; t.n = thorough ? 2500000 : 1500000; t.p = pp; t.seam = shape; t.w_lo = 1; tasks.push_back(t); }   // from the origin: segment lengths grow from a few thousand to more than 2^17 points
            // witness family (C04): one segment whose hulls hold 66,000 .. 131,100 (thorough 300,000) vertices, optimum known to be 1
            if (k == 6 && prop == 4) for (long shape : {0L, 1L}) for (auto ne : (thorough ? std::vector<std::pair<long, size_t>>{{66000, 8}, {70000, 64}, {131100, 64}, {300000, 64}} : std::vector<std::pair<long, size_t>>{{66000, 8}, {70000, 64}, {131100, 64}})) { Task t; t.key = k; t.kind = 8; t.eps = ne.second; t.n = ne.first; t.seam = shape; tasks.push_back(t); }
            // hashed irregular keys (duplicates, power-of-two gaps, jumps) for every n in 9..400
            for (size_t e : std::vector<size_t>{1, 2, 8}) for (long n0 = 9; n0 < (thorough ? 1000 : 400); n0 += 49) { Task t; t.key = k; t.kind = 7; t.eps = e; t.w_lo = n0; t.w_hi = std::min<long>(n0 + 49, thorough ? 1000 : 400); tasks.push_back(t); }
            // two runs meeting just before a chunk end
            for (size_t e6 : {size_t(1), size_t(0)})   // epsilon 0 through the chunked builder as well
            for (long pp : (thorough ? std::vector<long>{2, 3, 5, 20} : std::vector<long>{2, 20})) for (long j : {0L, pp - 2}) { Task t; t.key = k; t.kind = 6; t.eps = e6; t.n = 32768; t.p = pp; t.seam = j; tasks.push_back(t); }
            // a history of builds with changing thread counts inside one process
            for (long w : {0L, 1365L, 2730L}) { Task t; t.key = k; t.kind = 4; t.eps = 1; t.n = 32768; t.w_lo = w; tasks.push_back(t); }
            // below the chunking threshold the builder must stay sequential whatever the thread count
            for (long nn : {32767L, 20000L, 8192L, 4096L}) for (long p : {2L, 4L, 15L, 20L})
                for (long w = 0; w < 4096; w += 1024) { Task t; t.key = k; t.kind = 1; t.eps = 1; t.n = nn; t.p = p; t.seam = 0; t.w_lo = w + 77; t.w_hi = w + (thorough ? 93 : 81); tasks.push_back(t); }
            for (size_t e : (thorough ? std::vector<size_t>{1, 8, 64, 1024} : std::vector<size_t>{1, 8, 64})) {
                for (long rep : (thorough ? std::vector<long>{1, 50, 400} : std::vector<long>{1, 50})) {
                    if (e == 1024 && rep > 50) continue;
                    Task t; t.key = k; t.kind = 2; t.eps = e; t.nblocks = 1; t.rep = rep; t.b_lo = 0; t.b_hi = ks::NUM_BLOCK_IDS; tasks.push_back(t);
                }
                if (e <= 64 || thorough) for (long b = 0; b < ks::NUM_BLOCK_IDS; b += 3) { Task t; t.key = k; t.kind = 2; t.eps = e; t.nblocks = 2; t.rep = 1; t.b_lo = b; t.b_hi = b + 3; tasks.push_back(t); }
            }
        }
    }
    run.run_tasks(tasks.size(), [&](uint64_t i) { if (!run.deadline_passed()) dispatch(run, cn, prop, tasks[i]); });

    // Binding of the sequentialised chunks to the real OpenMP builder: the same family members must give bit-identical indexes
    if (opt.extra.count("ompbind-bin") && !run.deadline_passed()) {
        int c_cmp = run.counter("omp_binding_indexes_compared"), c_bad = run.counter("omp_binding_mismatches");
        std::string out_file = "/tmp/verif_ompbind_" + std::to_string(getpid()) + ".txt";
        std::string cmd = "'" + opt.extra["ompbind-bin"] + "' > '" + out_file + "' 2>/dev/null";
        int rc = system(cmd.c_str());
        std::map<std::string, std::string> real;
        { std::istringstream in(mc::read_file(out_file)); std::string a, b; while (in >> a >> b) real[a] = b; }
        unlink(out_file.c_str());
        if (rc != 0 || real.empty()) run.harness_error("the OpenMP binding binary failed or printed nothing");
        else for (auto &s : ompbind::specs()) {
            verif::chunks = int(s.chunks);
            uint64_t d = 0;
            if (!ompbind::digest(s, d)) continue;
            run.add(c_cmp, 3);
            auto it = real.find(s.str());
            if (it == real.end() || it->second != std::to_string((unsigned long long) d)) { run.add(c_bad); run.harness_error("sequentialised chunked build differs from the real OpenMP build for family=" + s.str() + " (the chunk-count interposition no longer models the library)"); }
        }
        verif::chunks = 1;
    }

    mc::Run::EvidenceExtra ev;
    ev.states_counter = "arrays_segmented"; ev.transitions_counter = prop == 3 ? "point_vs_line_checks" : "maximality_checks_against_exact_oracle";
    ev.nontrivial_counter = "arrays_with_2plus_distinct_keys";
    ev.rule = std::string("every non-decreasing key sequence of length 1..") + std::to_string(N) + " over each 10-value palette, key types u32/i32/u64/i64/u8/i16/long long/unsigned long long" + (prop == 3 ? "/float/double" : "") +
              ", epsilon 0..3, fed to make_segmentation; seam-window family (n=2^15(+delta), all 4096 six-letter words over {dup,+1,+2,+65536} at every chunk seam) hashed irregular keys for every n in 9..400, epsilon 1/2/8 (for C03 also through builder objects that are reused after reset() or alive two at a time); smooth convex and concave key sets (i^2 and sqrt-shaped, 1.5 million keys) with epsilon 1024 (segments of more than 2^16 points); for C04 a witness family (gaps shrinking / growing by one per key: 66,000..131,100 hull vertices in one segment, the chord checked exactly to be within epsilon of every point, so exactly one segment is required); seam-window members through make_segmentation_par with the chunk count answered by the harness (also as a history 8,1,2,20,3,8,1 of thread counts inside one process; processors = threads, more threads than processors, fewer threads than processors: c = min of the two); block grammar (1 block x rep, 2 blocks) for epsilon in {1,8,64" + (thorough ? ",1024" : "") + "}. " +
              (prop == 3 ? "Each point recorded by hook H1 is evaluated against the line reported for its segment (exact 128-bit rational arithmetic for integer keys, long double + stated tolerance for floating keys). "
                         : "Each builder call's partition is compared with the greedy partition computed by an exact rational stabbing-line oracle (pairwise slope bounds), plus the optimum count, the 2*epsilon spacing of segment starts, and every upper-level call inside PGMIndex builds. ") +
              "State = one segmented array; transition = one point checked; non-trivial = at least two distinct keys.";
    ev.bounds = "N<=" + std::to_string(N) + "; eps 0..3 small scope; families as in rule";
    ev.assumptions = {"hook H1 (PGM_INDEX_VERIF_BEGIN/POINT/SEGMENT) reports the points actually handed to OptimalPiecewiseLinearModel::add_point",
                      "floating keys: line evaluated in long double, tolerance epsilon + 1 + 1e-3", "chunking sequentialised through omp interposition; bound to the real -fopenmp build by comparing bit-identical index digests on seam/longrun/chunktail members with 2,3,5,16 threads (counter omp_binding_indexes_compared)"};
    return run.finish(ev);
}
