// Engine `copymove`: exhaustive enumeration of copy/move/destroy/mutate/query histories over two slots for every index class (C19).
// Built with AddressSanitizer: the oracle is "the target answers every query exactly like the original" + "no invalid access".
#include "../mc/common.hpp"
#include "pgm/pgm_index.hpp"
#include "pgm/pgm_index_variants.hpp"
#include "pgm/pgm_index_dynamic.hpp"
#include <array>
#include <type_traits>

extern "C" int omp_get_num_procs(void) noexcept { return 1; }
extern "C" int omp_get_max_threads(void) noexcept { return 1; }
extern "C" int omp_get_thread_num(void) noexcept { return 0; }      // pragmas are ignored in this build: every parallel region runs as a team of one
extern "C" int omp_get_num_threads(void) noexcept { return 1; }
extern "C" int omp_in_parallel(void) noexcept { return 0; }
extern "C" void omp_set_num_threads(int) noexcept {}
extern "C" int omp_get_thread_limit(void) noexcept { return 1; }

#ifdef VERIF_ASAN
extern "C" void __asan_on_error() {
    if (mc::g_run) mc::g_run->violation(mc::g_run->worker_id >= 0 ? mc::g_run->sh->slot[mc::g_run->worker_id] : "(parent)", "AddressSanitizer reported an invalid memory access (the target refers to storage owned by the source)");
}
extern "C" const char *__asan_default_options() { return "halt_on_error=0:detect_leaks=0:print_summary=0"; }
#endif

using mc::Run;

struct Cn {
    int histories, steps, queries, digests, nontrivial, destroyed_then_queried, mutated_then_queried;
    explicit Cn(Run &r) {
        histories = r.counter("histories_executed"); steps = r.counter("history_steps_executed"); queries = r.counter("target_queries_compared"); digests = r.counter("target_digests_compared");
        nontrivial = r.counter("histories_that_query_the_target_after_touching_the_source"); destroyed_then_queried = r.counter("histories_query_after_source_destroyed"); mutated_then_queried = r.counter("histories_query_after_source_mutated");
    }
};

// ---- datasets -----------------------------------------------------------------------------------------------------------
static std::vector<uint64_t> keys_dataset(int id) {
    std::vector<uint64_t> v;
    if (id == 0) for (uint64_t i = 0; i < 24; ++i) v.push_back(100 + i);                                                        // one segment
    else if (id == 1) { uint64_t x = 7; for (int i = 0; i < 3000; ++i) { x += 1 + (uint64_t(i) * 2654435761u % 97) * (i % 13 == 0 ? 1000 : 1); v.push_back(x); } }   // several levels
    else if (id == 2) { uint64_t x = 50; for (int i = 0; i < 400; ++i) { x += (i % 7 == 0) ? 40 : 0; v.push_back(x + (i % 3 == 0)); } std::sort(v.begin(), v.end()); }          // duplicates
    else if (id == 3) { double x = 10; for (int i = 0; i < 4000; ++i) { x *= 1.004; v.push_back(uint64_t(x) + uint64_t(i)); } }                       // exponential growth: first intercepts far from 0 for large epsilon
    else if (id == 5) { v = keys_dataset(1); for (size_t i = 100; i + 100 < v.size(); ++i) v[i] += 1; }   // near twin of dataset 1: same size, span and shape, most keys one larger
    else { uint64_t x = 1000; for (int c = 0; c < 150000; ++c) { for (int j = 0; j < 4; ++j) v.push_back(++x); x += 40; } v.push_back(3000000000ull); }   // 150k segments packed into ~800 Elias-Fano buckets + one far key: the select structures get long superblocks
    return v;
}
static std::vector<uint64_t> keys_queries(const std::vector<uint64_t> &d) {
    std::vector<uint64_t> q;
    size_t step = std::max<size_t>(1, d.size() / 60);
    for (size_t i = 0; i < d.size(); i += step) { q.push_back(d[i]); q.push_back(d[i] + 1); if (d[i] > 0) q.push_back(d[i] - 1); }
    q.push_back(0); q.push_back(d.back() + 5); q.push_back(std::numeric_limits<uint64_t>::max() - 1); q.push_back(uint64_t(1) << 63);
    return q;
}

// ---- adapters -------------------------------------------------------------------------------------------------------------
template<typename Index> struct StaticAdapter {
    using type = Index;
    static constexpr bool mutate_uses_source_state = false;   // mutate = assignment of a new index
    static constexpr int ndatasets = 4;
    static Index *make(int ds) { auto d = keys_dataset(ds); return new Index(d.begin(), d.end()); }
    static std::string digest(Index &ix, int ds, Run &run, Cn &cn) {
        auto d = keys_dataset(ds); std::string s;
        for (auto q : keys_queries(d)) { auto r = ix.search(q); run.add(cn.queries); s += std::to_string(r.pos) + "," + std::to_string(r.lo) + "," + std::to_string(r.hi) + ";"; }
        s += "#" + std::to_string(ix.size_in_bytes()) + "," + std::to_string(ix.height());
        return s;
    }
    static void mutate(Index &ix, int other_ds) { if constexpr (std::is_move_assignable_v<Index>) { auto d = keys_dataset(other_ds); ix = Index(d.begin(), d.end()); } }
};
using MD = pgm::MultidimensionalPGMIndex<2, uint32_t, 1>;
struct MultiAdapter {
    using type = MD;
    static constexpr bool mutate_uses_source_state = false;
    static constexpr int ndatasets = 3;
    static std::vector<std::tuple<uint32_t, uint32_t>> pts(int ds) {
        std::vector<std::tuple<uint32_t, uint32_t>> v;
        if (ds == 0) for (uint32_t i = 0; i < 5; ++i) v.emplace_back(i, i);
        else if (ds == 1) for (uint32_t x = 0; x < 24; ++x) for (uint32_t y = 0; y < 24; ++y) v.emplace_back(x * 3, y * 5);
        else for (uint32_t i = 0; i < 200; ++i) v.emplace_back(i % 4, (i / 70));
        return v;
    }
    static MD *make(int ds) { auto p = pts(ds); return new MD(p.begin(), p.end()); }
    static std::string digest(MD &ix, int ds, Run &run, Cn &cn) {
        std::string s; (void) ds;
        for (uint32_t x = 0; x < 8; ++x) for (uint32_t y = 0; y < 8; ++y) { run.add(cn.queries); s += ix.contains({x, y}) ? '1' : '0'; }
        for (auto box : std::vector<std::array<uint32_t, 4>>{{0, 0, 3, 3}, {1, 0, 1, 100}, {0, 0, 100, 100}, {2, 2, 2, 2}, {50, 50, 60, 60}}) {
            run.add(cn.queries); size_t c = 0;
            for (auto it = ix.range({box[0], box[1]}, {box[2], box[3]}); it != ix.end() && c < 100000; ++it) { s += std::to_string(std::get<0>(*it)) + "." + std::to_string(std::get<1>(*it)) + ","; ++c; }
            s += ';';
        }
        return s;
    }
    static void mutate(MD &ix, int other_ds) { auto p = pts(other_ds); ix = MD(p.begin(), p.end()); }
};
template<typename V> struct DynVals { static V get(uint32_t i) { return V(i + 1); } };
template<> struct DynVals<std::string> { static std::string get(uint32_t i) { return "v" + std::to_string(i); } };
template<typename V> struct DynAdapter {
    using type = pgm::DynamicPGMIndex<uint32_t, V, pgm::PGMIndex<uint32_t, 1, 1>>;
    using Dyn = type;
    static constexpr bool mutate_uses_source_state = true;    // mutate = updates on the source object
    static constexpr int ndatasets = 3;
    static Dyn *make(int ds) {
        std::vector<std::pair<uint32_t, V>> init;
        if (ds == 1) for (uint32_t i = 0; i < 40; ++i) init.emplace_back(10 + 3 * i, DynVals<V>::get(i));
        Dyn *d = init.empty() ? new Dyn(uint8_t(2), uint8_t(1), uint8_t(2)) : new Dyn(init.begin(), init.end(), uint8_t(2), uint8_t(1), uint8_t(2));
        if (ds == 0) for (uint32_t i = 0; i < 2; ++i) d->insert_or_assign(5 + i, DynVals<V>::get(i));
        if (ds == 1) { for (uint32_t i = 0; i < 9; ++i) d->insert_or_assign(11 + 3 * i, DynVals<V>::get(100 + i)); d->erase(13); d->erase(16); }
        if (ds == 2) { for (uint32_t i = 0; i < 30; ++i) d->insert_or_assign((i * 7) % 23, DynVals<V>::get(i)); for (uint32_t i = 0; i < 8; ++i) d->erase(i * 3); }
        return d;
    }
    static std::string val(const V &v) { if constexpr (std::is_same_v<V, std::string>) return v; else return std::to_string(v); }
    static std::string digest(Dyn &ix, int ds, Run &run, Cn &cn) {
        std::string s; (void) ds;
        for (uint32_t q = 0; q < 140; q += (q < 40 ? 1 : 7)) {
            run.add(cn.queries);
            auto f = ix.find(q); s += f == ix.end() ? "-" : val(f->second); s += ',';
            auto lb = ix.lower_bound(q); s += lb == ix.end() ? "e" : std::to_string(lb->first); s += ';';
        }
        size_t c = 0; for (auto it = ix.begin(); it != ix.end() && c < 10000; ++it, ++c) s += std::to_string(it->first) + "=" + val(it->second) + ",";
        for (auto &p : ix.range(3, 60)) s += std::to_string(p.first) + ":";
        s += "#" + std::to_string(ix.size());
        return s;
    }
    static void mutate(Dyn &ix, int) { for (uint32_t i = 0; i < 9; ++i) ix.insert_or_assign(4 + 5 * i, DynVals<V>::get(900 + i)); ix.erase(5); ix.erase(10); ix.erase(11); }
};

// ---- histories ----------------------------------------------------------------------------------------------------------------
// slots S (source, built over dataset d0) and T (target: absent, or built over d1). Ops: CC copy-construct T from S, MC move-construct,
// CA copy-assign, MA move-assign, DS destroy S, MS mutate S, QT query T.
enum { CC, MC, CA, MA, DS, MS, QT, NOPS };
static const char *op_names[] = {"CC", "MC", "CA", "MA", "DS", "MS", "QT"};

template<typename Ad>
struct Explorer {
    using Index = typename Ad::type;
    Run &run; Cn &cn; const char *cls;
    static constexpr bool can_ca = std::is_copy_assignable_v<Index>, can_ma = std::is_move_assignable_v<Index>;
    static constexpr bool can_cc = std::is_copy_constructible_v<Index>, can_mc = std::is_move_constructible_v<Index>;

    void gen(int len, bool t_initial, std::vector<std::vector<int>> &out) {
        // symbolic state: s: 0 valid(d0), 1 moved-from, 2 destroyed, 3 mutated ; t: 0 absent, 1 initial(d1), 2 holds copy of d0
        std::function<void(std::vector<int> &, int, int)> rec = [&](std::vector<int> &cur, int s, int t) {
            if (!cur.empty() && cur.back() == QT) out.push_back(cur);   // histories end with a query
            if (int(cur.size()) == len) return;
            auto go = [&](int op, int ns, int nt) { cur.push_back(op); rec(cur, ns, nt); cur.pop_back(); };
            if (s == 0 && t == 0 && can_cc) go(CC, 0, 2);
            if (s == 0 && t == 0 && can_mc) go(MC, 1, 2);
            if (s == 0 && t != 0 && can_ca) go(CA, 0, 2);
            if (s == 0 && t != 0 && can_ma) go(MA, 1, 2);
            if (s != 2) go(DS, 2, t);
            if (s != 2 && !(s == 1 && Ad::mutate_uses_source_state)) go(MS, 3, t);   // a moved-from source may only be destroyed or assigned to
            if (t != 0 && (cur.empty() || cur.back() != QT)) go(QT, s, t);
        };
        std::vector<int> cur; rec(cur, 0, t_initial ? 1 : 0);
    }
    static std::string hist_str(const std::vector<int> &h) { std::string s; for (size_t i = 0; i < h.size(); ++i) { if (i) s += ','; s += op_names[h[i]]; } return s; }

    void run_history(int d0, int d1, bool t_initial, const std::vector<int> &h, const std::string &ref0, const std::string &ref1) {
        std::string cs = std::string("class=") + cls + " d0=" + std::to_string(d0) + " d1=" + std::to_string(d1) + " t_initial=" + (t_initial ? "1" : "0") + " hist=" + hist_str(h);
        run.set_case(cs);
        run.add(cn.histories);
        Index *S = Ad::make(d0), *T = t_initial ? Ad::make(d1) : nullptr;
        int t_holds = t_initial ? 1 : -1;   // which reference the target must match: 0 -> d0, 1 -> d1
        bool touched = false, destroyed = false, mutated = false, counted = false;
        for (int op : h) {
            run.add(cn.steps);
            switch (op) {
                case CC: if constexpr (can_cc) T = new Index(*S); t_holds = 0; break;
                case MC: if constexpr (can_mc) T = new Index(std::move(*S)); t_holds = 0; break;
                case CA: if constexpr (can_ca) *T = *S; t_holds = 0; break;
                case MA: if constexpr (can_ma) *T = std::move(*S); t_holds = 0; break;
                case DS: delete S; S = nullptr; touched = destroyed = true; break;
                case MS: Ad::mutate(*S, d1); touched = mutated = true; break;
                case QT: {
                    run.add(cn.digests);
                    if (touched && t_holds == 0 && !counted) { run.add(cn.nontrivial); if (destroyed) run.add(cn.destroyed_then_queried); if (mutated) run.add(cn.mutated_then_queried); counted = true; }
                    std::string got = Ad::digest(*T, t_holds == 0 ? d0 : d1, run, cn);
                    const std::string &want = t_holds == 0 ? ref0 : ref1;
                    if (got != want) {
                        size_t i = 0; while (i < got.size() && i < want.size() && got[i] == want[i]) ++i;
                        run.violation(cs, "the target's answers differ from the original's (digest position " + std::to_string(i) + ": got '" + got.substr(i, 24) + "' want '" + want.substr(i, 24) + "')");
                        delete S; delete T; return;
                    }
                    break;
                }
            }
        }
        delete S; delete T;
    }

    void explore(int len) {
        for (int t_initial = 0; t_initial < 2; ++t_initial) {
            std::vector<std::vector<int>> hs; gen(len, t_initial, hs);
            std::stable_sort(hs.begin(), hs.end(), [](const std::vector<int> &a, const std::vector<int> &b) { return a.size() < b.size(); });   // shortest first
            for (int d0 = 0; d0 < Ad::ndatasets; ++d0) for (int d1 = 0; d1 < Ad::ndatasets; ++d1) {
                if (d0 == d1) continue;
                Index *r0 = Ad::make(d0), *r1 = Ad::make(d1);
                std::string ref0 = Ad::digest(*r0, d0, run, cn), ref1 = Ad::digest(*r1, d1, run, cn);
                delete r0; delete r1;
                bool sampled = false;
                for (auto &h : hs) {
                    if (!sampled && h.size() == size_t(len) && d0 == 1 && h[0] != QT) { run.sample(std::string("class=") + cls + " d0=1 d1=" + std::to_string(d1) + " t_initial=" + std::to_string(t_initial) + " hist=" + hist_str(h)); sampled = true; }
                    run_history(d0, d1, t_initial, h, ref0, ref1);
                    if (run.deadline_passed()) return;
                }
            }
        }
    }
    // big skewed dataset (4) as the initial content of the target: assignments must replace every part of the succinct structures
    void explore_big() {
        Index *r4 = Ad::make(4); std::string ref4 = Ad::digest(*r4, 4, run, cn); delete r4;
        for (auto h : std::vector<std::vector<int>>{{CC, QT}, {CC, DS, QT}, {MC, QT}, {MC, DS, QT}}) run_history(4, 0, false, h, ref4, ref4);   // the big index as the source
        for (int d0 : {0, 1}) {
            Index *r0 = Ad::make(d0); std::string ref0 = Ad::digest(*r0, d0, run, cn); delete r0;
            for (auto h : std::vector<std::vector<int>>{{CA, QT}, {MA, QT}, {CA, DS, QT}, {MA, DS, QT}, {QT, CA, QT}}) {
                bool ok = true; for (int op : h) if ((op == CA && !can_ca) || (op == MA && !can_ma)) ok = false;
                if (ok) run_history(d0, 4, true, h, ref0, ref4);
            }
        }
    }
    // near twins (datasets 1 and 5): an assignment that "optimises" the case of equal-looking operands must still copy everything
    void explore_twins() {
        for (auto pr : std::vector<std::pair<int, int>>{{1, 5}, {5, 1}}) {
            Index *ra = Ad::make(pr.first), *rb = Ad::make(pr.second);
            std::string refa = Ad::digest(*ra, pr.first, run, cn), refb = Ad::digest(*rb, pr.second, run, cn); delete ra; delete rb;
            for (auto h : std::vector<std::vector<int>>{{CA, QT}, {MA, QT}, {CA, DS, QT}, {MA, DS, QT}, {QT, CA, QT}, {CA, MS, QT}}) {
                bool ok = true; for (int op : h) if ((op == CA && !can_ca) || (op == MA && !can_ma)) ok = false;
                if (ok) run_history(pr.first, pr.second, true, h, refa, refb);
            }
        }
    }

    void replay(const std::map<std::string, std::string> &m) {
        int d0 = atoi(m.at("d0").c_str()), d1 = atoi(m.at("d1").c_str()); bool ti = m.at("t_initial") == "1";
        std::vector<int> h; for (auto &t : mc::split(m.at("hist"), ',')) for (int i = 0; i < NOPS; ++i) if (t == op_names[i]) h.push_back(i);
        Index *r0 = Ad::make(d0), *r1 = Ad::make(d1);
        std::string ref0 = Ad::digest(*r0, d0, run, cn), ref1 = Ad::digest(*r1, d1, run, cn); delete r0; delete r1;
        run_history(d0, d1, ti, h, ref0, ref1);
    }
};

struct ClassEntry { const char *name; void (*explore)(Run &, Cn &, int len); void (*replay)(Run &, Cn &, const std::map<std::string, std::string> &); void (*explore_big)(Run &, Cn &); void (*explore_twins)(Run &, Cn &); };
template<typename Ad> struct Thunk {
    static const char *&name() { static const char *n = ""; return n; }
    static void explore(Run &r, Cn &c, int len) { Explorer<Ad>{r, c, name()}.explore(len); }
    static void replay(Run &r, Cn &c, const std::map<std::string, std::string> &m) { Explorer<Ad>{r, c, name()}.replay(m); }
    static void explore_big(Run &r, Cn &c) { if constexpr (Ad::ndatasets == 4) Explorer<Ad>{r, c, name()}.explore_big(); }
    static void explore_twins(Run &r, Cn &c) { if constexpr (Ad::ndatasets == 4) Explorer<Ad>{r, c, name()}.explore_twins(); }
};
#define CLS(NAME, ...) [] { Thunk<__VA_ARGS__>::name() = NAME; return ClassEntry{NAME, &Thunk<__VA_ARGS__>::explore, &Thunk<__VA_ARGS__>::replay, &Thunk<__VA_ARGS__>::explore_big, &Thunk<__VA_ARGS__>::explore_twins}; }()

int main(int argc, char **argv) {
    auto opt = mc::parse_args(argc, argv);
    if (opt.property != "C19" && opt.property != "C17") { fprintf(stderr, "usage: copymove --prop C19\n"); return 2; }
    bool thorough = opt.tier == "thorough";
    Run run(opt, "copymove");
    Cn cn(run);
    std::vector<ClassEntry> classes = {
        CLS("PGMIndex<u64,1,1>", StaticAdapter<pgm::PGMIndex<uint64_t, 1, 1>>), CLS("PGMIndex<u64,4,0>", StaticAdapter<pgm::PGMIndex<uint64_t, 4, 0>>),
        CLS("Compressed<u64,1,1>", StaticAdapter<pgm::CompressedPGMIndex<uint64_t, 1, 1>>), CLS("Compressed<u64,2,0>", StaticAdapter<pgm::CompressedPGMIndex<uint64_t, 2, 0>>),
        CLS("Compressed<u64,64,4>", StaticAdapter<pgm::CompressedPGMIndex<uint64_t, 64, 4>>), CLS("Compressed<u64,16,0>", StaticAdapter<pgm::CompressedPGMIndex<uint64_t, 16, 0>>), CLS("EliasFano<u64,16>", StaticAdapter<pgm::EliasFanoPGMIndex<uint64_t, 16>>),
        CLS("Bucketing<u64,1,4,32>", StaticAdapter<pgm::BucketingPGMIndex<uint64_t, 1, 4, 32>>), CLS("Bucketing<u64,1,100,0>", StaticAdapter<pgm::BucketingPGMIndex<uint64_t, 1, 100, 0>>),
        CLS("EliasFano<u64,1>", StaticAdapter<pgm::EliasFanoPGMIndex<uint64_t, 1>>), CLS("Multidimensional<2,u32,1>", MultiAdapter),
        CLS("Dynamic<u32,u32>", DynAdapter<uint32_t>), CLS("Dynamic<u32,string>", DynAdapter<std::string>),
    };
    if (!opt.replay.empty()) {
        auto m = mc::parse_case(mc::json_field(mc::read_file(opt.replay), "case"));
        run.opt.write_evidence = false; run.worker_id = 0;
        for (auto &c : classes) if (m["class"] == c.name) c.replay(run, cn, m);
        auto v = run.sh->violations.load();
        printf("replay verdict: %s\n", v ? "VIOLATION reproduced" : "no violation");
        return v ? 1 : 0;
    }
    int len = thorough ? 7 : 5;
    // tasks: one per class, plus the big-skewed-dataset stage for the classes built on sdsl select structures
    std::vector<std::pair<int, int>> tasks;
    for (size_t i = 0; i < classes.size(); ++i) {
        std::string n = classes[i].name;
        bool succinct = n == "EliasFano<u64,1>" || (thorough && (n == "Compressed<u64,2,0>" || n == "Compressed<u64,1,1>" || n == "EliasFano<u64,16>"));
        if (succinct) tasks.emplace_back(int(i), 1);
    }
    for (size_t i = 0; i < classes.size(); ++i) tasks.emplace_back(int(i), 2);
    for (size_t i = 0; i < classes.size(); ++i) tasks.emplace_back(int(i), 0);
    run.run_tasks(tasks.size(), [&](uint64_t t) { if (tasks[t].second == 1) classes[tasks[t].first].explore_big(run, cn); else if (tasks[t].second == 2) classes[tasks[t].first].explore_twins(run, cn); else classes[tasks[t].first].explore(run, cn, len); });
    mc::Run::EvidenceExtra ev;
    ev.states_counter = "history_steps_executed"; ev.transitions_counter = "target_queries_compared"; ev.nontrivial_counter = "histories_that_query_the_target_after_touching_the_source"; ev.eval_counter = "histories_executed";
    ev.rule = "for each of 13 class instantiations (PGMIndex, Compressed, Bucketing, Elias-Fano, Multidimensional, Dynamic with arithmetic and string values) and every ordered pair of 3-4 datasets (single segment; several levels; duplicates / tombstones; exponential growth with first intercepts far from 0): every valid history of length <= " + std::to_string(len) +
              " over {copy-construct, move-construct, copy-assign, move-assign (where the class provides them), destroy source, mutate source, query target} ending in a query, with the target initially absent or holding another dataset; plus assignments between near-twin datasets (same size, span and shape, keys differing by one) and, for the Elias-Fano based classes, assignments over a target that holds a 600,001-key skewed dataset whose select structures use long superblocks; oracle: the target's digest over its whole query alphabet equals the digest of a freshly built original, under AddressSanitizer (heap objects, so a destroyed source is poisoned). "
              "State = one history step; non-trivial = the target is queried after the source was destroyed or mutated.";
    ev.bounds = "history length <= " + std::to_string(len) + ", 6-12 ordered dataset pairs, 2 initial target states, 13 classes";
    ev.assumptions = {"AddressSanitizer (recover mode, __asan_on_error hook) is the memory oracle", "a moved-from source is only destroyed or assigned to"};
    return run.finish(ev);
}
