// Engine `mapped`: bounded-exhaustive exploration of MappedPGMIndex (C11 multiset queries, C12 create/raw/reopen equivalence)
// on the real code, with real files in a per-worker scratch directory.
#include "../mc/common.hpp"
#include "keyspace.hpp"
#include "pgm/pgm_index.hpp"
#include "pgm/pgm_index_variants.hpp"
#include <dirent.h>
#include <deque>

static int g_chunks = 1;   // answered to the library's omp_get_num_procs / omp_get_max_threads (chunks run sequentially)
extern "C" int omp_get_num_procs(void) noexcept { return g_chunks; }
extern "C" int omp_get_max_threads(void) noexcept { return g_chunks; }
extern "C" int omp_get_thread_num(void) noexcept { return 0; }      // pragmas are ignored in this build: every parallel region runs as a team of one
extern "C" int omp_get_num_threads(void) noexcept { return 1; }
extern "C" int omp_in_parallel(void) noexcept { return 0; }
extern "C" void omp_set_num_threads(int) noexcept {}
extern "C" int omp_get_thread_limit(void) noexcept { return 1; }

#ifdef VERIF_ASAN
extern "C" void __asan_on_error() {
    if (mc::g_run) mc::g_run->violation(mc::g_run->worker_id >= 0 ? mc::g_run->sh->slot[mc::g_run->worker_id] : "(parent)", "AddressSanitizer reported an invalid memory access");
}
extern "C" const char *__asan_default_options() { return "halt_on_error=0:detect_leaks=0:print_summary=0"; }
#endif

using mc::Run;

#ifdef VERIF_ASAN
// Memory oracle for the mapped file: file-backed read-only mappings requested by the library are served from an anonymous region in
// which the file content is right-aligned against a PROT_NONE guard page, so that a read of even one byte past the end of the
// mapped file faults (fatal signal = C17 violation). Registered regions are released by the interposed munmap.
#include <sys/syscall.h>
namespace guardmap {
struct Region { char *user; char *base; size_t total; };
static Region regions[256]; static int nregions = 0;
static void *raw_mmap(void *a, size_t l, int pr, int fl, int fd, off_t off) { return (void *) syscall(SYS_mmap, a, l, pr, fl, fd, off); }
static int raw_munmap(void *a, size_t l) { return (int) syscall(SYS_munmap, a, l); }
}
extern "C" void *mmap(void *addr, size_t len, int prot, int flags, int fd, off_t off) {
    using namespace guardmap;
    if (fd >= 0 && prot == PROT_READ && (flags & MAP_SHARED) && addr == nullptr && off == 0 && len > 0 && nregions < 256) {
        size_t page = 4096, body = (len + page - 1) / page * page, total = body + page;
        char *base = (char *) raw_mmap(nullptr, total, PROT_READ | PROT_WRITE, MAP_PRIVATE | MAP_ANONYMOUS, -1, 0);
        if (base == MAP_FAILED) return MAP_FAILED;
        // keep the 8-byte alignment the library relies on: the slack before the guard page is len rounded up to 8
        size_t len8 = (len + 7) / 8 * 8;
        char *user = base + body - len8;
        size_t done = 0; while (done < len) { ssize_t r = pread(fd, user + done, len - done, off_t(done)); if (r <= 0) break; done += size_t(r); }
        mprotect(base, body, PROT_READ);
        mprotect(base + body, page, PROT_NONE);
        regions[nregions++] = {user, base, total};
        return user;
    }
    return guardmap::raw_mmap(addr, len, prot, flags, fd, off);
}
extern "C" int munmap(void *addr, size_t len) {
    using namespace guardmap;
    for (int i = 0; i < nregions; ++i) if (regions[i].user == addr) { int r = raw_munmap(regions[i].base, regions[i].total); regions[i] = regions[--nregions]; return r; }
    return raw_munmap(addr, len);
}
#endif

struct Cn {
    int arrays, nontrivial, queries, histories, steps, objects, file_compares, long_runs, containers;
    explicit Cn(Run &r) {
        arrays = r.counter("arrays_stored"); nontrivial = r.counter("arrays_with_2plus_distinct_keys"); queries = r.counter("query_batteries_key_checked");
        histories = r.counter("histories_executed"); steps = r.counter("history_steps_checked"); objects = r.counter("objects_checked_after_a_step");
        file_compares = r.counter("file_byte_comparisons"); long_runs = r.counter("arrays_with_a_run_longer_than_2eps_plus_2"); containers = r.counter("containers_constructed");
    }
};

static std::string g_dir;
static long g_parent = 0;
static void make_dir() {
    const char *base = access("/dev/shm", W_OK) == 0 ? "/dev/shm" : (getenv("TMPDIR") ? getenv("TMPDIR") : "/tmp");
    g_dir = std::string(base) + "/verif_mapped_" + std::to_string(g_parent) + "_" + std::to_string(getpid());
    mkdir(g_dir.c_str(), 0700);
}
static void remove_dir() {
    if (g_dir.empty()) return;
    if (DIR *d = opendir(g_dir.c_str())) { while (auto *e = readdir(d)) if (e->d_name[0] != '.') unlink((g_dir + "/" + e->d_name).c_str()); closedir(d); }
    rmdir(g_dir.c_str());
}
// MappedPGMIndex::map_file never closes its descriptors; the mapping stays valid after close, so the harness closes them.
static void close_leaked_fds() { for (int fd = 3; fd < 64; ++fd) close(fd); }

static std::string file_bytes(const std::string &path) { return mc::read_file(path); }

template<typename K, size_t E, size_t R>
struct Explorer {
    using Index = pgm::MappedPGMIndex<K, E, R>;
    Run &run; Cn &cn; int prop; const char *cfg;
    std::string case_of(const std::string &desc, const std::string &extra) const { return std::string("cfg=") + cfg + " " + desc + (extra.empty() ? "" : " " + extra); }

    // the C11 battery on one container
    bool battery(const Index &ix, const std::vector<K> &data, const std::vector<K> &queries, const std::string &cs, const char *who) {
        if (ix.size() != data.size()) { run.violation(cs, std::string(who) + ": size() != n"); return false; }
        if (size_t(ix.end() - ix.begin()) != data.size() || !std::equal(data.begin(), data.end(), ix.begin())) { run.violation(cs, std::string(who) + ": begin()..end() differs from the stored sequence"); return false; }
        for (K q : queries) {
            run.add(cn.queries);
            if (prop == 17) { (void) ix.lower_bound(q); (void) ix.upper_bound(q); (void) ix.count(q); (void) ix.contains(q); continue; }
            auto lb = size_t(std::lower_bound(data.begin(), data.end(), q) - data.begin());
            auto ub = size_t(std::upper_bound(data.begin(), data.end(), q) - data.begin());
            auto got_lb = size_t(ix.lower_bound(q) - ix.begin());
            if (got_lb != lb) { run.violation(cs + " q=" + mc::key_str(q), std::string(who) + ": lower_bound at " + std::to_string(got_lb) + ", std::lower_bound at " + std::to_string(lb)); return false; }
            auto got_ub = size_t(ix.upper_bound(q) - ix.begin());
            if (got_ub != ub) { run.violation(cs + " q=" + mc::key_str(q), std::string(who) + ": upper_bound at " + std::to_string(got_ub) + ", std::upper_bound at " + std::to_string(ub)); return false; }
            if (ix.count(q) != ub - lb) { run.violation(cs + " q=" + mc::key_str(q), std::string(who) + ": count() " + std::to_string(ix.count(q)) + " != " + std::to_string(ub - lb)); return false; }
            if (ix.contains(q) != (ub > lb)) { run.violation(cs + " q=" + mc::key_str(q), std::string(who) + ": contains() disagrees with std::binary_search"); return false; }
        }
        return true;
    }

    std::vector<K> queries_for(const std::vector<K> &data) {
        std::vector<K> pal(data.begin(), data.end()); pal.erase(std::unique(pal.begin(), pal.end()), pal.end());
        return ks::query_alphabet<K>(pal);
    }

    // ---- C11 -------------------------------------------------------------------------------------------------------------
    void check_c11(const std::vector<K> &data, const std::string &desc) {
        std::string cs = case_of(desc, "");
        run.set_case(cs);
        run.add(cn.arrays);
        if (data.front() != data.back()) run.add(cn.nontrivial);
        size_t longest = 1, cur = 1;
        for (size_t i = 1; i < data.size(); ++i) { cur = data[i] == data[i - 1] ? cur + 1 : 1; longest = std::max(longest, cur); }
        if (longest > 2 * E + 2) run.add(cn.long_runs);
        std::string f = g_dir + "/c11.bin";
        try {
            auto queries = queries_for(data);
            bool ok;
            {
                // the range constructor takes any random-access range: every other array comes from a std::deque whose first half was
                // pushed to the front, so that even a two-element sequence is not contiguous in memory
                if ((data.size() + size_t(data.back())) % 2 == 1) {
                    std::deque<K> dq; size_t h = data.size() / 2;
                    for (size_t i = h; i < data.size(); ++i) dq.push_back(data[i]);
                    for (size_t i = h; i-- > 0;) dq.push_front(data[i]);
                    Index ix(dq.begin(), dq.end(), f);
                    run.add(cn.containers);
                    ok = battery(ix, data, queries, cs, "range-created container (from a std::deque)");
                } else {
                    Index ix(data.begin(), data.end(), f);
                    run.add(cn.containers);
                    ok = battery(ix, data, queries, cs, "range-created container");
                }
            }
            // the sequence is "stored in a MappedPGMIndex" whichever way the container came to be: the reopened container for every array,
            // the raw-file-created one (and its reopening) for every third array
            if (ok) { close_leaked_fds(); Index re(f); run.add(cn.containers); ok = battery(re, data, queries, cs, "reopened container"); }
            if (ok && (data.size() + size_t(data.front()) + size_t(data.back())) % 3 == 0) {
                std::string raw = g_dir + "/c11raw.bin", f2 = g_dir + "/c11b.bin";
                { FILE *fp = fopen(raw.c_str(), "wb"); fwrite(data.data(), sizeof(K), data.size(), fp); fclose(fp); }
                { Index rw(raw, f2); run.add(cn.containers); ok = battery(rw, data, queries, cs, "raw-file-created container"); }
                if (ok) { close_leaked_fds(); Index re2(f2); run.add(cn.containers); battery(re2, data, queries, cs, "reopened raw-file-created container"); }
                unlink(raw.c_str()); unlink(f2.c_str());
            }
        } catch (const std::exception &e) { run.violation(cs, std::string("construction threw on valid data: ") + e.what()); }
        close_leaked_fds();
        unlink(f.c_str());
    }

    void small_scope(int palette_id, int len, int first) {
        auto pal = ks::palette<K>(palette_id);
        std::vector<K> data(len);
        bool sampled = false;
        mc::for_each_multiset(int(pal.size()), len, first, [&](const std::vector<int> &idx) {
            for (int i = 0; i < len; ++i) data[i] = pal[idx[i]];
            std::string desc = "data=" + mc::keys_str(data);
            if (!sampled && len >= 4 && first == (palette_id * 3 + len) % 10 && idx[0] != idx[len - 1]) { run.sample(case_of(desc, prop == 12 ? "*all histories*" : "*all alphabet queries*")); sampled = true; }
            if (prop == 12) check_c12(data, desc);
            else if (prop == 17) { check_c11(data, desc); if (len <= c12_max_len) check_c12(data, desc); }   // memory-only mode: both corpora
            else check_c11(data, desc);
            return !run.deadline_passed();
        });
    }

    // run family: up to three runs, lengths from an epsilon-derived set, adjacent or far apart; `l0` fixes the first run's length index
    static std::vector<size_t> run_lengths() { return {0, 1, 2, 3, 4, 5, 7, 8, 9, 15, 16, 17, 2 * E + 1, 2 * E + 2, 2 * E + 3, 4 * E + 5}; }
    void run_family(size_t l0) {
        auto L = run_lengths();
        for (size_t l1 = 0; l1 < L.size(); ++l1) for (size_t l2 = 0; l2 < L.size(); ++l2) for (int gaps = 0; gaps < 4; ++gaps) {
            if (run.deadline_passed()) return;
            std::vector<K> data; K v = 5;
            auto add = [&](size_t len, bool far) { if (len == 0) return; v = K(v + (far ? 1000 : 1)); for (size_t i = 0; i < len; ++i) data.push_back(v); };
            add(L[l0], false); add(L[l1], gaps & 1); add(L[l2], gaps & 2);
            if (data.empty()) continue;
            if (sizeof(K) >= 8 && (l1 + l2) % 3 == 0) { K last = K(data.back() + (K(1) << 40)); data.push_back(last); data.push_back(K(last + 3)); }   // an astronomically wide gap after the runs
            std::string desc = "runs=" + std::to_string(L[l0]) + "," + std::to_string(L[l1]) + "," + std::to_string(L[l2]) + ",gaps" + std::to_string(gaps) + ((sizeof(K) >= 8 && (l1 + l2) % 3 == 0) ? ",far" : "");
            if (l1 == 12 && l2 == 3 && gaps == 1) run.sample(case_of(desc, ""));
            check_c11(data, desc);
        }
    }
    // large-input families shared with the search engine (chunked construction: seam windows, long duplicate runs)
    void large_family(const ks::FamilySpec &spec) {
        std::vector<K> data, queries;
        if (!ks::generate_family<K>(spec, E, data, queries)) return;
        g_chunks = int(spec.chunks);
        std::string desc = "family=" + spec.str();
        std::string cs = case_of(desc, "");
        run.set_case(cs);
        run.add(cn.arrays); run.add(cn.nontrivial);
        std::string f = g_dir + "/fam.bin";
        try {
            if ((spec.n + spec.seam + spec.word) % 2 == 1) {
                std::deque<K> dq(data.begin(), data.end());
                Index ix(dq.begin(), dq.end(), f);
                run.add(cn.containers);
                battery(ix, data, queries, cs, "range-created container (from a std::deque)");
            } else {
                Index ix(data.begin(), data.end(), f);
                run.add(cn.containers);
                battery(ix, data, queries, cs, "range-created container");
            }
        } catch (const std::exception &e) { run.violation(cs, std::string("construction threw on valid data: ") + e.what()); }
        close_leaked_fds();
        unlink(f.c_str());
        g_chunks = 1;
    }
    static std::vector<K> runs_data(const std::string &spec) {
        auto p = mc::split(spec, ','); std::vector<K> data; K v = 5; int gaps = atoi(p[3].c_str() + 4);
        auto add = [&](size_t len, bool far) { if (len == 0) return; v = K(v + (far ? 1000 : 1)); for (size_t i = 0; i < len; ++i) data.push_back(v); };
        add(strtoul(p[0].c_str(), 0, 10), false); add(strtoul(p[1].c_str(), 0, 10), gaps & 1); add(strtoul(p[2].c_str(), 0, 10), gaps & 2);
        if (p.size() > 4 && p[4] == "far") { K last = K(data.back() + (K(1) << 40)); data.push_back(last); data.push_back(K(last + 3)); }
        return data;
    }

    // ---- C12 -------------------------------------------------------------------------------------------------------------
    struct Snapshot { size_t n; K first_key; std::vector<size_t> offsets; std::string seg_bytes; };
    static Snapshot snap(const Index &ix) {
        Snapshot s{ix.n, ix.first_key, ix.levels_offsets, std::string((const char *) ix.segments.data(), ix.segments.size() * sizeof(ix.segments[0]))};
        return s;
    }
    static bool same(const Snapshot &a, const Snapshot &b) { return a.n == b.n && a.first_key == b.first_key && a.offsets == b.offsets && a.seg_bytes == b.seg_bytes; }

    // All histories of exactly `len` steps over {R, W, O1, O2, X<i>} that respect "file exists" (R and W at most once).
    static void gen_histories(int len, std::vector<std::string> &out, std::string cur = "", bool f1 = false, bool f2 = false, int live = 0, int steps = 0) {
        if (steps == len) { out.push_back(cur); return; }
        auto next = [&](const std::string &op, bool nf1, bool nf2, int nlive) { gen_histories(len, out, cur + (cur.empty() ? "" : ",") + op, nf1, nf2, nlive, steps + 1); };
        if (!f1) next("R", true, f2, live + 1);
        if (!f2) next("W", f1, true, live + 1);
        if (f1) next("O1", f1, f2, live + 1);
        if (f2) next("O2", f1, f2, live + 1);
        for (int i = 0; i < live; ++i) next("X" + std::to_string(i), f1, f2, live - 1);
    }

    void run_history(const std::vector<K> &data, const std::vector<K> &queries, const std::string &hist, const std::string &desc) {
        bool use_deque = (std::hash<std::string>()(hist) + data.size()) % 2 == 1;
        std::string cs = case_of(desc, "hist=" + hist + (use_deque ? " source=deque" : " source=vector"));
        run.set_case(cs);
        run.add(cn.histories);
        std::string f1 = g_dir + "/f1.bin", f2 = g_dir + "/f2.bin", raw = g_dir + "/raw.bin";
        { FILE *f = fopen(raw.c_str(), "wb"); fwrite(data.data(), sizeof(K), data.size(), f); fclose(f); }
        // every other history finds longer files with other contents already at the output paths (a creating constructor replaces them)
        if ((std::hash<std::string>()(hist) / 2 + data.size()) % 2 == 0) {
            size_t junk = data.size() * sizeof(K) * 3 + 8192;
            for (int w = 0; w < 2; ++w) { FILE *f = fopen((w ? f2 : f1).c_str(), "wb"); std::string block(junk, w ? char(0xCD) : char(0xAB)); fwrite(block.data(), 1, block.size(), f); fclose(f); }
        }
        // every third history names the raw key file through a symbolic link
        std::string rawl = g_dir + "/rawlink.bin"; unlink(rawl.c_str());
        bool via_link = (std::hash<std::string>()(hist) / 4 + data.size()) % 3 == 0 && symlink(raw.c_str(), rawl.c_str()) == 0;
        const std::string &raw_path = via_link ? rawl : raw;
        struct Obj { Index *ix; int file; const char *how; };
        std::vector<Obj> live;
        std::string bytes1, bytes2; Snapshot s1{}, s2{}; bool have1 = false, have2 = false;
        bool ok = true;
        for (auto &op : mc::split(hist, ',')) {
            if (!ok) break;
            run.add(cn.steps);
            try {
                if (op == "R") {
                    // the range constructor accepts any random-access range: every other history passes a std::deque (not contiguous)
                    if (use_deque) { std::deque<K> dq(data.begin(), data.end()); live.push_back({new Index(dq.begin(), dq.end(), f1), 1, "range-created container (from std::deque)"}); }
                    else live.push_back({new Index(data.begin(), data.end(), f1), 1, "range-created container"}); run.add(cn.containers); bytes1 = file_bytes(f1); s1 = snap(*live.back().ix); have1 = true; }
                else if (op == "W") { live.push_back({new Index(raw_path, f2), 2, via_link ? "raw-file-created container (input named through a symbolic link)" : "raw-file-created container"}); run.add(cn.containers); bytes2 = file_bytes(f2); s2 = snap(*live.back().ix); have2 = true; }
                else if (op == "O1" || op == "O2") {
                    int which = op == "O1" ? 1 : 2;
                    live.push_back({new Index(which == 1 ? f1 : f2), which, "reopened container"}); run.add(cn.containers);
                    if (!same(snap(*live.back().ix), which == 1 ? s1 : s2)) { run.violation(cs, "after " + op + ": the reopened container's index (n, first key, level offsets, segments) differs from the one its creator held"); ok = false; }
                } else { size_t i = size_t(atoi(op.c_str() + 1)); delete live[i].ix; live.erase(live.begin() + i); }
            } catch (const std::exception &e) { run.violation(cs, "step " + op + " threw: " + e.what()); ok = false; break; }
            close_leaked_fds();
            if (!ok) break;
            for (auto &o : live) { run.add(cn.objects); if (!battery(*o.ix, data, queries, cs + " after=" + op, o.how)) { ok = false; break; } }
            if (ok && prop != 17) for (auto &o : live) {   // the size a container reports for its file is the size of that file
                size_t on_disk = file_bytes(o.file == 1 ? f1 : f2).size();
                if (o.ix->file_size_in_bytes() != on_disk) { run.violation(cs, "after " + op + ": a " + std::string(o.how) + " reports a file of " + std::to_string(o.ix->file_size_in_bytes()) + " bytes, the file has " + std::to_string(on_disk)); ok = false; break; }
            }
            if (!ok || prop == 17) continue;
            if (have1 && file_bytes(f1) != bytes1) { run.violation(cs, "after " + op + ": the file written by the range constructor changed"); ok = false; }
            if (have2 && file_bytes(f2) != bytes2) { run.violation(cs, "after " + op + ": the file written by the raw-file constructor changed"); ok = false; }
            if (have1 && have2) {
                run.add(cn.file_compares);
                if (bytes1 != bytes2) {
                    size_t i = 0; while (i < bytes1.size() && i < bytes2.size() && bytes1[i] == bytes2[i]) ++i;
                    run.violation(cs, "the two construction paths wrote different files (first difference at byte " + std::to_string(i) + ", sizes " + std::to_string(bytes1.size()) + "/" + std::to_string(bytes2.size()) + ")"); ok = false;
                }
            }
        }
        for (auto &o : live) delete o.ix;
        close_leaked_fds();
        unlink(f1.c_str()); unlink(f2.c_str()); unlink(raw.c_str()); unlink(rawl.c_str());
    }

    // raw input files whose size is a multiple of the page size (or just around it): unmapping the input with a wrong length would
    // tear down a neighbouring mapping
    void page_family() {
        size_t per_page = 4096 / sizeof(K);
        size_t per_mib = (size_t(1) << 20) / sizeof(K);
        for (size_t n : {per_page - 1, per_page, per_page + 1, 2 * per_page, 2 * per_page - 3, per_mib, per_mib + 1}) {
            if (n > 70000 && sizeof(K) < 4) continue;   // a 16-bit key type cannot hold that many distinct keys of this shape
            std::vector<K> data(n); for (size_t i = 0; i < n; ++i) data[i] = K(K(1) + K(i % 1000) * 3 + K(i / 1000) * 3000);
            std::sort(data.begin(), data.end());
            std::string desc = "pagefamily_n=" + std::to_string(n);
            std::vector<K> queries = {data[0], K(data[0] - 1), data[n / 2], K(data[n / 2] + 1), data[n - 1], K(data[n - 1] + 1)};
            run.add(cn.arrays); run.add(cn.nontrivial);
            for (const char *h : {"R,W,O1,O2", "W,R,O2,O1", "R,W,X1,O2", "W,R,X0,O1", "R,O1,W,X0", "R,W,X0,O2"}) { if (run.deadline_passed()) return; run_history(data, queries, h, desc); }
        }
    }
    int hist_len = 4, c12_max_len = 3;
    std::vector<std::string> hists;
    void check_c12(const std::vector<K> &data, const std::string &desc) {
        if (hists.empty()) gen_histories(hist_len, hists);
        run.add(cn.arrays);
        if (data.front() != data.back()) run.add(cn.nontrivial);
        auto queries = queries_for(data);
        for (auto &h : hists) { if (run.deadline_passed()) return; run_history(data, queries, h, desc); }
    }

    void replay(const std::map<std::string, std::string> &m) {
        std::vector<K> data; std::string desc;
        if (m.count("family") && m.count("hist")) {
            std::vector<K> q; auto spec = ks::FamilySpec::parse(m.at("family"));
            if (!ks::generate_family<K>(spec, E, data, q)) { fprintf(stderr, "cannot regenerate family\n"); exit(2); }
            run_history(data, q, m.at("hist"), "family=" + m.at("family")); return;
        }
        if (m.count("family")) { large_family(ks::FamilySpec::parse(m.at("family"))); return; }
        if (m.count("pagefamily_n")) { page_family(); return; }
        if (m.count("runs")) { data = runs_data(m.at("runs")); desc = "runs=" + m.at("runs"); }
        else { data = mc::parse_keys<K>(m.at("data")); desc = "data=" + m.at("data"); }
        printf("replay: cfg=%s n=%zu\n", cfg, data.size());
        if (m.count("hist")) run_history(data, queries_for(data), m.at("hist"), desc);
        else check_c11(data, desc);
    }
};

struct Task { int cfg, kind, palette, len, first; size_t l0; long p = 1, seam = 0, w_lo = 0, w_hi = 0, rep = 1; };
struct CfgEntry {
    const char *name; int tier; int npalettes;
    void (*run)(Run &, Cn &, int prop, const Task &, int hist_len);
    void (*replay)(Run &, Cn &, int prop, const std::map<std::string, std::string> &);
};
template<typename K, size_t E, size_t R>
struct Thunk {
    static const char *&name() { static const char *n = ""; return n; }
    static void run(Run &r, Cn &c, int prop, const Task &t, int hist_len) {
        Explorer<K, E, R> ex{r, c, prop, name()}; ex.hist_len = hist_len; ex.c12_max_len = hist_len >= 4 ? 4 : 3;
        if (t.kind == 0) ex.small_scope(t.palette, t.len, t.first);
        else if (t.kind == 1) ex.run_family(t.l0);
        else if (t.kind == 5) ex.page_family();
        else if (t.kind == 7) {
            // hashed irregular keys for every n in a window: every residue of n and of the stored segment count; for C12 through a
            // create / raw-create / reopen / reopen history each
            for (long n = t.w_lo; n < t.w_hi && !r.deadline_passed(); ++n) {
                ks::FamilySpec s; s.kind = "irr"; s.chunks = 1; s.rep = n; s.word = n % 5;
                if (prop == 12) { std::vector<K> data, queries; if (ks::generate_family<K>(s, E, data, queries)) { r.add(c.arrays); r.add(c.nontrivial); ex.run_history(data, queries, n % 2 ? "R,W,O1,O2" : "W,R,O2,O1", "family=" + s.str()); } }
                else ex.large_family(s);
            }
        }
        else if (t.kind == 6) {
            for (long a : {1L, 2L, 3L}) for (long L : {long(E) + 1, 2 * long(E) + 2, 4 * long(E) + 4, 200L}) for (long so : {-1L, 0L, 50L}) { if (r.deadline_passed()) break; ks::FamilySpec s; s.kind = "tworuns"; s.n = 32768; s.chunks = t.p; s.seam = t.seam; s.width = a; s.rep = L; s.word = so; ex.large_family(s); }
        }
        else if (t.kind == 2) {
            for (long w = t.w_lo; w < t.w_hi && !r.deadline_passed(); w += 4) { ks::FamilySpec s; s.kind = "seam"; s.n = 32768; s.chunks = t.p; s.seam = 0; s.word = w; if (w == t.w_lo + 8) r.sample(ex.case_of("family=" + s.str(), "")); ex.large_family(s); }
        } else if (t.kind == 4) {
            for (long w = t.w_lo; w < t.w_hi && !r.deadline_passed(); ++w) { ks::FamilySpec s; s.kind = "density"; s.chunks = 1; s.rep = 300; s.width = 4; s.word = w; ex.large_family(s); }
        } else {
            for (long so : {-2L, -1L, 0L, 1L}) for (long eo : {-3L, -2L, -1L, 0L, 1L}) { if (r.deadline_passed()) break; ks::FamilySpec s; s.kind = "longrun"; s.n = 32768; s.chunks = t.p; s.seam = t.seam; s.rep = t.rep; s.width = so; s.word = eo; ex.large_family(s); }
        }
    }
    static void replay(Run &r, Cn &c, int prop, const std::map<std::string, std::string> &m) { Explorer<K, E, R>{r, c, prop, name()}.replay(m); }
};
#define CFG(NAME, TIER, K, E, R) [] { Thunk<K, E, R>::name() = NAME; return CfgEntry{NAME, TIER, ks::num_palettes<K>(), &Thunk<K, E, R>::run, &Thunk<K, E, R>::replay}; }()

int main(int argc, char **argv) {
    auto opt = mc::parse_args(argc, argv);
    int prop = opt.property.size() == 3 ? atoi(opt.property.c_str() + 1) : 0;
    if (prop != 11 && prop != 12 && prop != 17) { fprintf(stderr, "usage: mapped --prop C11|C12 [--tier ..] [--replay f]\n"); return 2; }
    bool thorough = opt.tier == "thorough";
    Run run(opt, "mapped");
    Cn cn(run);
    g_parent = getpid();
    std::vector<CfgEntry> cfgs = {
        CFG("mapped<i16,1,0>", 0, int16_t, 1, 0), CFG("mapped<u32,1,1>", 0, uint32_t, 1, 1), CFG("mapped<i64,2,1>", 0, int64_t, 2, 1), CFG("mapped<u64,1,4>", 0, uint64_t, 1, 4), CFG("mapped<u64,2,64>", 0, uint64_t, 2, 64),
        CFG("mapped<ll,1,1>", 0, long long, 1, 1), CFG("mapped<u32,4,4>", 1, uint32_t, 4, 4), CFG("mapped<i64,128,4>", 1, int64_t, 128, 4), CFG("mapped<u64,1,2>", 1, uint64_t, 1, 2), CFG("mapped<i32,3,0>", 1, int32_t, 3, 0),
    };
    if (!opt.replay.empty()) {
        auto m = mc::parse_case(mc::json_field(mc::read_file(opt.replay), "case"));
        run.opt.write_evidence = false; run.worker_id = 0; make_dir();
        int rc = 2;
        for (auto &c : cfgs) if (m["cfg"] == c.name) {
            c.replay(run, cn, prop == 17 ? 12 : prop, m);
            auto v = run.sh->violations.load();
            printf("replay verdict: %s\n", v ? "VIOLATION reproduced" : "no violation");
            rc = v ? 1 : 0;
        }
        remove_dir();
        return rc;
    }
    int N = prop == 11 ? (thorough ? 10 : 8) : (thorough ? 5 : 4);
    int hist_len = thorough ? 5 : 4;
#ifdef VERIF_ASAN
    N = thorough ? 5 : 4; hist_len = thorough ? 4 : 3;
#endif
    if (prop == 17) N = thorough ? 6 : 4;
    if (opt.extra.count("N")) N = atoi(opt.extra["N"].c_str());
    std::vector<Task> tasks;
    for (int len = 1; len <= N; ++len)
        for (size_t c = 0; c < cfgs.size(); ++c) {
            if (cfgs[c].tier == 1 && !thorough) continue;
            for (int p = 0; p < cfgs[c].npalettes; ++p) for (int f = 0; f < 10; ++f) tasks.push_back({int(c), 0, p, len, f, 0});
        }
    if (prop == 11)
        for (size_t c = 0; c < cfgs.size(); ++c) {
            if (cfgs[c].tier == 1 && !thorough) continue;
            for (size_t l0 = 0; l0 < 16; ++l0) tasks.push_back({int(c), 1, 0, 0, 0, l0});
        }
    if (prop == 12 || prop == 17) for (size_t c = 0; c < cfgs.size(); ++c) { if (cfgs[c].tier == 1 && !thorough) continue; tasks.push_back({int(c), 5, 0, 0, 0, 0}); }
    if (prop == 12) for (size_t c = 0; c < cfgs.size(); ++c) {   // irr family through create / raw-create / reopen histories
        if (cfgs[c].tier == 1 && !thorough) continue;
        for (long n0 = 9; n0 < (thorough ? 1000 : 400); n0 += 49) { Task t{int(c), 7, 0, 0, 0, 0}; t.w_lo = n0; t.w_hi = std::min<long>(n0 + 49, thorough ? 1000 : 400); tasks.push_back(t); }
    }
    // chunked construction (n = 2^15, 2 and 20 chunks): seam-window words (every 4th) and long duplicate runs, 32/64-bit configurations
    if (prop == 11) {
        bool asan_build = false;
#ifdef VERIF_ASAN
        asan_build = true;
#endif
        for (size_t c = 0; c < cfgs.size(); ++c) {
            if (cfgs[c].tier == 1 && !thorough) continue;
            if (c == 0 || (asan_build && !thorough)) continue;   // int16 cannot hold 2^15 keys of the family
            for (long w = 0; w < 256; w += 16) { Task t{int(c), 4, 0, 0, 0, 0}; t.w_lo = w; t.w_hi = w + 16; tasks.push_back(t); }   // density family: several levels
            for (long n0 = 9; n0 < (thorough ? 1000 : 400); n0 += 49) { Task t{int(c), 7, 0, 0, 0, 0}; t.w_lo = n0; t.w_hi = std::min<long>(n0 + 49, thorough ? 1000 : 400); tasks.push_back(t); }   // irr family
            for (long p : {2L, 20L}) {
                for (long w = 0; w < 4096; w += 256) { Task t{int(c), 2, 0, 0, 0, 0}; t.p = p; t.w_lo = w; t.w_hi = w + 256; tasks.push_back(t); }
                for (long j = 0; j < p; ++j) { if (p == 20 && !thorough && j > 1 && j < 18) continue; for (long len : {1L, 2L}) { if (j + len > p) continue; Task t{int(c), 3, 0, 0, 0, 0}; t.p = p; t.seam = j; t.rep = len; tasks.push_back(t); } }
                for (long j : {0L, p - 2}) { Task t{int(c), 6, 0, 0, 0, 0}; t.p = p; t.seam = j; tasks.push_back(t); }   // two runs meeting just before a chunk end
            }
        }
    }
    run.run_tasks(tasks.size(), [&](uint64_t i) {
        if (run.deadline_passed()) return;
        if (g_dir.empty()) { make_dir(); atexit(remove_dir); }
        cfgs[tasks[i].cfg].run(run, cn, prop, tasks[i], hist_len);
        if (i + 1 >= tasks.size() || true) {}
    });
    // workers leave through _exit: remove their scratch directories here
    { std::string pat = "verif_mapped_" + std::to_string(g_parent) + "_*"; std::string cmd = "rm -rf /dev/shm/" + pat + " /tmp/" + pat + " 2>/dev/null"; if (system(cmd.c_str())) {} }

    mc::Run::EvidenceExtra ev;
    ev.states_counter = prop == 12 ? "history_steps_checked" : "arrays_stored"; ev.transitions_counter = "query_batteries_key_checked"; ev.nontrivial_counter = "arrays_with_2plus_distinct_keys";
    ev.rule = prop == 11
        ? "every non-decreasing sequence of length 1.." + std::to_string(N) + " over four 10-value palettes (signed and unsigned key types, values at lowest()/max-1) and the run family (up to three runs with lengths from {0,1,2,3,4,5,7,8,9,15,16,17,2E+1,2E+2,2E+3,4E+5}, adjacent or 1000 apart, last run ending at n) and, for chunked construction, the seam-window family (n=2^15, 2 and 20 chunks, every 4th of the 4096 window words at every seam and at the tail) and the long-run family (a duplicate run from around a chunk start to around a chunk end) is stored in a real MappedPGMIndex (file in a scratch directory); for every query of the alphabet lower_bound, upper_bound, count, contains are compared with the std algorithms, begin()/end()/size() with the vector. State = one stored array; transition = one query key; non-trivial = at least two distinct keys."
        : "for every non-decreasing sequence of length 1.." + std::to_string(N) + " over the palettes (first key negative, zero, positive): every history of exactly " + std::to_string(hist_len) + " steps over {R: create f1 from the range, W: create f2 from a raw key file, O1/O2: reopen f1/f2, X<i>: destroy the i-th live object} respecting file existence; after every step every live object answers the full C11 battery, f1 and f2 are byte-identical, a reopened object's index members equal its creator's, and no file changed; plus a page-size family (raw inputs of exactly / around one and two pages, six histories each). State = one history step; non-trivial arrays have at least two distinct keys.";
    ev.bounds = "N<=" + std::to_string(N) + (prop == 12 ? ", history length " + std::to_string(hist_len) : "") + "; configurations mapped<i16,1,0> mapped<u32,1,1> mapped<i64,2,1> mapped<u64,1,4> mapped<u64,2,64>" + (thorough ? " mapped<u32,4,4> mapped<i64,128,4> mapped<u64,1,2> mapped<i32,3,0>" : "");
    ev.assumptions = {"files live in a per-worker scratch directory on /dev/shm (or TMPDIR)", "ASan build only: file mappings are served right-aligned against a PROT_NONE guard page (8-byte slack at most), so over-reads past the mapped file fault", "the harness closes the descriptors that MappedPGMIndex::map_file leaks (the mappings stay valid)"};
    return run.finish(ev);
}
