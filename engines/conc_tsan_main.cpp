// Layer 3 of the concurrency engine: the zoo's queries on 16 free-running threads under the real ThreadSanitizer runtime.
// usage: conc_tsan <rounds> <scratch dir>
#include "conc_zoo.hpp"
#include <atomic>
#include <cstdio>
#include <cstdlib>
#include <thread>
#include <vector>
int main(int argc, char **argv) {
    int rounds = argc > 1 ? atoi(argv[1]) : 50;
    zoo_build(argc > 2 ? argv[2] : "/tmp");
    uint64_t solo[16][16];
    for (int c = 0; c < zoo_classes(); ++c) for (int q = 0; q < zoo_queries(c); ++q) solo[c][q] = zoo_run(c, q);
    std::atomic<uint64_t> calls{0}, mismatches{0};
    std::vector<std::thread> th;
    for (int t = 0; t < 16; ++t) th.emplace_back([&, t] {
        for (int r = 0; r < rounds; ++r)
            for (int c = 0; c < zoo_classes(); ++c)
                for (int q = 0; q < zoo_queries(c); ++q) { int qq = (q + t + r) % zoo_queries(c); if (zoo_run(c, qq) != solo[c][qq]) mismatches++; calls++; }
    });
    for (auto &t : th) t.join();
    printf("calls=%llu mismatches=%llu\n", (unsigned long long) calls.load(), (unsigned long long) mismatches.load());
    if (mismatches.load()) printf("MISMATCH\n");
    zoo_destroy();
    return mismatches.load() ? 1 : 0;
}
