// Real-OpenMP side of the binding check: prints "<spec> <digest>" for every member of ompbind::specs().
#include "ompbind.hpp"
#include <omp.h>
#include <cstdio>
int main() {
    for (auto &s : ompbind::specs()) {
        omp_set_num_threads(int(s.chunks));
        uint64_t d = 0;
        if (ompbind::digest(s, d)) printf("%s %llu\n", s.str().c_str(), (unsigned long long) d);
    }
    return 0;
}
