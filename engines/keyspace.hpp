// Key palettes, query alphabets and large-input grammar families shared by the static-index engines.
#pragma once
#include "../mc/common.hpp"
#include <cmath>
#include <limits>
#include <type_traits>

namespace ks {

template<typename K> constexpr int key_class() {
    if constexpr (std::is_same_v<K, uint8_t>) return 0; else if constexpr (std::is_same_v<K, int8_t>) return 1;
    else if constexpr (std::is_same_v<K, uint16_t>) return 2; else if constexpr (std::is_same_v<K, int16_t>) return 3;
    else if constexpr (std::is_same_v<K, uint32_t>) return 4; else if constexpr (std::is_same_v<K, int32_t>) return 5;
    else if constexpr (std::is_same_v<K, uint64_t>) return 6; else if constexpr (std::is_same_v<K, int64_t>) return 7;
    else if constexpr (std::is_same_v<K, float>) return 8; else if constexpr (std::is_same_v<K, double>) return 9;
    else if constexpr (std::is_same_v<K, long long>) return 10; else if constexpr (std::is_same_v<K, unsigned long long>) return 11; else return 12;   // 10/11: 64-bit types distinct from int64_t/uint64_t
}
template<typename K> constexpr K reserved() {
    if constexpr (std::numeric_limits<K>::has_infinity) return std::numeric_limits<K>::infinity(); else return std::numeric_limits<K>::max();
}
template<typename K> constexpr K max_valid() {
    if constexpr (std::is_floating_point_v<K>) return std::numeric_limits<K>::max(); else return K(std::numeric_limits<K>::max() - 1);
}
template<typename K> constexpr int num_palettes() { return std::is_floating_point_v<K> ? 3 : 4; }

template<typename K> K up(K v) { return std::nextafter(v, std::numeric_limits<K>::infinity()); }
template<typename K> K down(K v) { return std::nextafter(v, -std::numeric_limits<K>::infinity()); }

// Ten admissible values per palette, strictly increasing, never the reserved value.
template<typename K> std::vector<K> palette(int id) {
    std::vector<K> p;
    if constexpr (std::is_floating_point_v<K>) {
        // Values keep away from zero/subnormals: the builder itself introduces a 1-ulp gap after duplicates and after the
        // last key, and the properties exclude densities n/min-gap that the slope type cannot represent.
        if (id == 0) { K a = K(-1000), b = K(1), c = K(3.0e6); p = {a, up(a), K(-999.5), K(-1.5), b, up(b), K(2), K(1000), c, up(c)}; }
        else if (id == 1) {
            K big = std::is_same_v<K, float> ? K(1.0e9) : K(1.0e18);
            K m = std::is_same_v<K, float> ? K(3.0e7) : K(3.0e16);
            p = {K(-big), up(K(-big)), K(-1.0e5), K(0.5), K(1.0e5), K(1.0e7), m, up(m), big, up(big)};
        } else { p = {K(1), K(2), K(3), K(4), K(5), K(6), K(7), K(8), K(9), K(10)}; }
    } else {
        using W = __int128;
        W lo = std::numeric_limits<K>::lowest(), hi = std::numeric_limits<K>::max();
        int bits = sizeof(K) * 8;
        W mid = std::is_signed_v<K> ? W(0) : (W(1) << (bits - 1));
        auto push = [&](W v) { p.push_back(K(v)); };
        if (id == 0) for (int i = 0; i < 10; ++i) push(lo + i);
        else if (id == 1) for (int i = 0; i < 10; ++i) push(mid - 5 + i);
        else if (id == 2) for (int i = 0; i < 10; ++i) push(hi - 10 + i);
        else { push(lo); push(lo + 1); push(lo + 3); push(lo + 6); push(mid - 1); push(mid); push(mid + (W(1) << (bits / 2))); push(hi - 4); push(hi - 2); push(hi - 1); }
    }
    for (size_t i = 1; i < p.size(); ++i) if (!(p[i - 1] < p[i])) { fprintf(stderr, "palette %d not increasing\n", id); exit(2); }
    return p;
}

// Queries derived from a sorted set of values: the values, their neighbours (computed in a wider type, so that the
// reserved value is never produced by wrap-around), gap midpoints, and the extremes of the type.
template<typename K> std::vector<K> query_alphabet(const std::vector<K> &vals) {
    std::vector<K> q;
    if constexpr (std::is_floating_point_v<K>) {
        for (size_t i = 0; i < vals.size(); ++i) {
            q.push_back(vals[i]); q.push_back(up(vals[i])); q.push_back(down(vals[i]));
            if (i + 1 < vals.size()) q.push_back(vals[i] / 2 + vals[i + 1] / 2);
        }
        q.push_back(std::numeric_limits<K>::lowest()); q.push_back(std::numeric_limits<K>::max());
        q.push_back(K(0)); q.push_back(std::is_same_v<K, float> ? K(1e30) : K(1e300)); q.push_back(std::is_same_v<K, float> ? K(-1e30) : K(-1e300));
        std::vector<K> f;
        for (K v : q) if (std::isfinite(v)) f.push_back(v);
        q = f;
    } else {
        using W = __int128;
        W lo = std::numeric_limits<K>::lowest(), hi = W(std::numeric_limits<K>::max()) - 1;
        auto push = [&](W v) { if (v >= lo && v <= hi) q.push_back(K(v)); };
        for (size_t i = 0; i < vals.size(); ++i) {
            W v = vals[i];
            push(v); push(v - 1); push(v + 1);
            if (i + 1 < vals.size()) push(v + (W(vals[i + 1]) - v) / 2);
        }
        push(lo); push(hi); push(lo + 1); push(hi - 1); push(std::is_signed_v<K> ? W(0) : (W(1) << (sizeof(K) * 8 - 1)));
    }
    std::sort(q.begin(), q.end());
    q.erase(std::unique(q.begin(), q.end()), q.end());
    return q;
}

// ---- large-input grammar families ---------------------------------------------------------------------------------------
// seam:   n keys, background arithmetic progression of stride 3; around chunk seam(s) a window of W positions takes the
//         word `word` over {0: duplicate of previous, 1: +1, 2: +2, 3: +65536}; p chunks; seam = 0 means every seam.
// blocks: concatenation, `rep` times, of up to three blocks; block id = ((kind*9 + Lidx)*5 + strideIdx)*3 + gapIdx with
//         kind 0 arithmetic / 1 duplicates, L from {1,2,e,e+1,2e,2e+1,2e+2,2e+3,4e+4}, stride {1,2,3,2^16,2^40}, gap {1,2,2^16}.
struct FamilySpec {
    std::string kind;
    long n = 0, chunks = 1, seam = 0, word = 0, width = 6, rep = 1, top = 0;   // top: the family starts at 3/4 of the key domain instead of 1000
    std::vector<long> blocks;
    std::string str() const {
        std::string s = kind + ":p=" + std::to_string(chunks);
        if (kind == "density") s += ":rep=" + std::to_string(rep) + ":w=" + std::to_string(width) + ":word=" + std::to_string(word) + ":seam=" + std::to_string(seam) + (top ? ":top=" + std::to_string(top) : "");
        else if (kind == "chunktail") s += ":rep=" + std::to_string(rep) + ":w=" + std::to_string(width) + ":word=" + std::to_string(word) + (n ? ":n=" + std::to_string(n) : "");
        else if (kind == "longrun") s += ":n=" + std::to_string(n) + ":seam=" + std::to_string(seam) + ":rep=" + std::to_string(rep) + ":w=" + std::to_string(width) + ":word=" + std::to_string(word);
        else if (kind == "irr") s += ":rep=" + std::to_string(rep) + ":word=" + std::to_string(word);
        else if (kind == "unitop") s += ":word=" + std::to_string(word);
        else if (kind == "randtop") s += ":rep=" + std::to_string(rep) + ":word=" + std::to_string(word);
        else if (kind == "tworuns") s += ":n=" + std::to_string(n) + ":seam=" + std::to_string(seam) + ":rep=" + std::to_string(rep) + ":w=" + std::to_string(width) + ":word=" + std::to_string(word);
        else if (kind == "stretch") s += ":rep=" + std::to_string(rep) + ":n=" + std::to_string(n) + ":w=" + std::to_string(width);
        else if (kind == "capacity") s += ":rep=" + std::to_string(rep) + ":n=" + std::to_string(n) + ":word=" + std::to_string(word);
        else if (kind == "span") s += ":rep=" + std::to_string(rep) + ":w=" + std::to_string(width) + ":word=" + std::to_string(word);
        else if (kind == "seam") s += ":n=" + std::to_string(n) + ":seam=" + std::to_string(seam) + ":w=" + std::to_string(width) + ":word=" + std::to_string(word);
        else { s += ":rep=" + std::to_string(rep) + ":b="; for (size_t i = 0; i < blocks.size(); ++i) s += (i ? "." : "") + std::to_string(blocks[i]); }
        return s;
    }
    static FamilySpec parse(const std::string &s) {
        FamilySpec f; auto parts = mc::split(s, ':'); f.kind = parts[0];
        for (size_t i = 1; i < parts.size(); ++i) {
            auto eq = parts[i].find('='); auto k = parts[i].substr(0, eq), v = parts[i].substr(eq + 1);
            if (k == "p") f.chunks = atol(v.c_str()); else if (k == "n") f.n = atol(v.c_str()); else if (k == "seam") f.seam = atol(v.c_str());
            else if (k == "w") f.width = atol(v.c_str()); else if (k == "word") f.word = atol(v.c_str()); else if (k == "rep") f.rep = atol(v.c_str()); else if (k == "top") f.top = atol(v.c_str());
            else if (k == "b") for (auto &t : mc::split(v, '.')) f.blocks.push_back(atol(t.c_str()));
        }
        return f;
    }
};

inline std::vector<long> eps_lengths(long e) { return {1, 2, e, e + 1, 2 * e, 2 * e + 1, 2 * e + 2, 2 * e + 3, 4 * e + 4}; }
constexpr long NUM_BLOCK_IDS = 2 * 9 * 5 * 3;
// canonical ids only: duplicate blocks ignore the stride (strideIdx must be 0)
inline bool block_id_canonical(long id) { long kind = id / (9 * 5 * 3), stride = (id / 3) % 5; return kind == 0 || stride == 0; }

template<typename K> void add_neighbours(std::vector<K> &q, K v) {
    if constexpr (std::is_floating_point_v<K>) { q.push_back(v); q.push_back(up(v)); q.push_back(down(v)); }
    else {
        using W = __int128; W lo = std::numeric_limits<K>::lowest(), hi = W(std::numeric_limits<K>::max()) - 1;
        for (W d = -1; d <= 1; ++d) { W x = W(v) + d; if (x >= lo && x <= hi) q.push_back(K(x)); }
    }
}

// Generates data and the queries to run; returns false when the member does not exist for this key type (overflow).
template<typename K> bool generate_family(const FamilySpec &f, size_t eps, std::vector<K> &data, std::vector<K> &queries) {
    using W = __int128;
    data.clear(); queries.clear();
    W hi = std::is_floating_point_v<K> ? (W(1) << 23) : W(max_valid<K>());
    std::vector<W> keys;
    std::vector<size_t> focus;   // positions whose keys (and neighbours) are queried
    std::vector<W> extra;        // further query values (inside gaps)
    if (f.kind == "seam") {
        size_t n = size_t(f.n), p = size_t(f.chunks), chunk = n / p;
        keys.resize(n);
        std::vector<int> letter(n, -1);
        for (size_t s = 1; s < p; ++s) {
            if (f.seam != 0 && size_t(f.seam) != s) continue;
            size_t seam_pos = s * chunk; long w = f.word;
            for (long j = 0; j < f.width; ++j, w /= 4) {
                size_t pos = seam_pos - size_t(f.width / 2) + size_t(j);
                if (pos >= 1 && pos < n) letter[pos] = int(w % 4);
            }
            for (long j = -f.width; j <= f.width; ++j) { long pos = long(seam_pos) + j; if (pos >= 0 && size_t(pos) < n) focus.push_back(size_t(pos)); }
        }
        if (f.seam == 0) {   // the end of the array is a seam too: a chunked builder must not lose or mispredict the tail
            long w = f.word;
            for (long j = 0; j < f.width; ++j, w /= 4) { size_t pos = n - size_t(f.width) + size_t(j); if (pos >= 1 && pos < n) letter[pos] = int(w % 4); }
            for (long j = 1; j <= 2 * f.width && size_t(j) <= n; ++j) focus.push_back(n - size_t(j));
        }
        W cur = 1000; keys[0] = cur;
        for (size_t i = 1; i < n; ++i) {
            W d = 3;
            if (letter[i] == 0) d = 0; else if (letter[i] == 1) d = 1; else if (letter[i] == 2) d = 2; else if (letter[i] == 3) d = 65536;
            cur += d; keys[i] = cur;
        }
        if (cur > hi) return false;
        focus.push_back(0); focus.push_back(n - 1); focus.push_back(n / 3);
    } else if (f.kind == "blocks") {
        auto L = eps_lengths(long(eps));
        const W strides[5] = {1, 2, 3, W(1) << 16, W(1) << 40};
        const W gaps[3] = {1, 2, W(1) << 16};
        W cur = 10;
        for (long r = 0; r < f.rep; ++r)
            for (long id : f.blocks) {
                long gap_i = id % 3, stride_i = (id / 3) % 5, l_i = (id / 15) % 9, kind = id / 135;
                W start = cur + gaps[gap_i];
                size_t first_pos = keys.size();
                for (long j = 0; j < L[l_i]; ++j) { cur = kind == 0 ? start + strides[stride_i] * j : start; keys.push_back(cur); if (cur > hi) return false; }
                if (r < 2 || r + 2 >= f.rep) { focus.push_back(first_pos); focus.push_back(keys.size() - 1); if (keys.size() - first_pos > 2) focus.push_back(first_pos + 1); }
            }
        if (keys.size() <= 3000) { focus.clear(); for (size_t i = 0; i < keys.size(); ++i) if (i == 0 || keys[i] != keys[i - 1]) focus.push_back(i); }
    } else if (f.kind == "longrun") {
        // one run of duplicates that starts `width` positions relative to the start of chunk `seam` and ends `word` positions relative
        // to the end of chunk seam + rep - 1 (both offsets may be negative); stride-3 background, a gap of 1000 after the run.
        size_t n = size_t(f.n), p = size_t(f.chunks), chunk = n / p;
        long start = long(size_t(f.seam) * chunk) + f.width, end = long((size_t(f.seam) + size_t(f.rep)) * chunk) - 1 + f.word;   // inclusive positions
        if (start < 1 || end >= long(n) || end < start) return false;
        W cur = 1000; keys.resize(n); keys[0] = cur;
        for (size_t i = 1; i < n; ++i) { if (long(i) > start && long(i) <= end) {} else cur += (long(i) == end + 1 ? 1000 : 3); keys[i] = cur; }
        for (long d = -3; d <= 3; ++d) { for (long base_pos : {start, end}) { long q = base_pos + d; if (q >= 0 && q < long(n)) focus.push_back(size_t(q)); } }
        for (size_t s2 = 1; s2 < p; ++s2) for (long d = -2; d <= 2; ++d) { long q = long(s2 * chunk) + d; if (q >= 0 && q < long(n)) focus.push_back(size_t(q)); }
        focus.push_back(0); focus.push_back(n - 1);
        if (cur > hi) return false;
    } else if (f.kind == "chunktail") {
        // `rep` clusters of 4 keys (one bottom segment each for small epsilon); a jump of 2^24 in key space plus a toggle of the gap
        // multiplier between 1 and 8 occur exactly `word` clusters before every boundary of a split of the cluster sequence into `chunks` parts: if an upper level (which has
        // one point per bottom segment) is built by the chunked builder, the last segment of every chunk is `word` points long.
        long C = f.rep, p = f.chunks, per = C / p; W cur = 1000; int m = 0;
        long csz = 2 * long(eps) + 2;   // a cluster of 2*eps+2 consecutive keys cannot share a segment with the next cluster
        const W mult[2] = {1, 8};
        for (long c = 0; c < C; ++c) {
            // a jump in key space (no line can absorb the points after it) and a density toggle `word` clusters before each boundary
            for (long j = 1; j < p; ++j) if (c == j * per - f.word) { m ^= 1; cur += W(1) << 24; }
            if (f.width > 0 && c % f.width == 0) m ^= 1;   // background zig-zag of period `width` clusters, so that the upper-level models use their whole error band
            size_t first_pos = keys.size();
            for (long j = 0; j < csz; ++j) { cur += 1; keys.push_back(cur); }
            cur += 10 * csz * mult[m];
            focus.push_back(first_pos); focus.push_back(first_pos + size_t(csz) - 1);
        }
        // `n` further clusters far away and with another spacing: the last points of every upper level do not follow the trend of
        // the points before them, and the number of points per level is not a multiple of the chunk count
        if (f.n > 0) {
            cur += W(1) << 28;
            for (long c = 0; c < f.n; ++c) {
                size_t first_pos = keys.size();
                for (long j = 0; j < csz; ++j) { cur += 1; keys.push_back(cur); }
                cur += 1000 * csz * (c + 1);
                focus.push_back(first_pos); focus.push_back(first_pos + size_t(csz) - 1);
            }
        }
        if (cur > hi) return false;
    } else if (f.kind == "density") {
        // clusters of 2*eps+2 keys with stride 1 separated by a gap 10*(2*eps+2)*m; the multiplier m changes every `rep` clusters following the digits of
        // `word` (base 4 -> multipliers 1,2,4,8), `width` digits: many short bottom segments and several segments on the upper levels.
        // `seam` encodes an optional jump: 1 = gap of 3x the span so far after the first digit block, 2 = 30x after the first block,
        // 3 = 30x after the third block (heavily skewed segment keys: long runs of empty Elias-Fano / top-level buckets).
        // top = 1: keys beyond 2^53 for 64-bit types (not exactly representable as double); top = 2: negative keys of a signed type
        if (f.top == 2 && !std::is_signed_v<K>) return false;
        const W origin = f.top == 1 ? hi / 4 * 3 : f.top == 2 ? W(std::numeric_limits<K>::lowest()) / 4 * 3 : W(1000);
        long w = f.word; W cur = origin;
        const W mult[4] = {1, 2, 4, 8};
        long csz = 2 * long(eps) + 2;   // cluster size: one segment per cluster for this epsilon
        if (csz * f.rep * f.width > 800000) return false;   // member too large for this epsilon
        for (long d = 0; d < f.width; ++d, w /= 4) {
            for (long c = 0; c < f.rep; ++c) {
                size_t first_pos = keys.size();
                for (long j = 0; j < csz; ++j) { cur += 1; keys.push_back(cur); }
                cur += 10 * csz * mult[w % 4];
                if (f.rep * f.width <= 60000 || c < 3 || c + 3 >= f.rep || c % 37 == 0) { focus.push_back(first_pos); focus.push_back(first_pos + size_t(csz) - 1); }
            }
            if ((f.seam == 1 && d == 0) || (f.seam == 2 && d == 0) || (f.seam == 3 && d == 2)) {
                W span = cur - origin, jump = span * (f.seam == 1 ? 3 : 30);
                keys.push_back(cur + jump / 2);   // a lone key in the middle of the jump
                focus.push_back(keys.size() - 1);
                cur += jump;
            }
        }
        if (f.seam == 4) {   // a few far outliers: the dense part then spans about a thousand Elias-Fano buckets holding ~150 segment keys each
            W far = cur * 450 > (W(3) << 30) ? cur * 450 : (W(3) << 30);
            for (int j = 0; j < 15; ++j) { keys.push_back(far + W(j) * 50000000); focus.push_back(keys.size() - 1); }
            cur = keys.back();
        }
        if (cur > hi) return false;
    } else if (f.kind == "irr") {
        // exactly `rep` keys with hashed gaps: 1 in 6 a duplicate, 1 in 16 a power of two up to 2^20, 1 in 40 a jump of thousands, else
        // 1..40; used for every n in a contiguous window, so that every residue of n and of the segment counts occurs
        auto mix = [](uint64_t x) { x ^= x >> 33; x *= 0xff51afd7ed558ccdull; x ^= x >> 33; x *= 0xc4ceb9fe1a85ec53ull; x ^= x >> 33; return x; };
        W cur = std::is_floating_point_v<K> ? W(2000) : W(1000); keys.push_back(cur);
        for (long i = 1; i < f.rep; ++i) {
            uint64_t h = mix(uint64_t(i) * 0x9E3779B97F4A7C15ull + uint64_t(f.word) * 1000003ull);
            W g = h % 6 == 0 ? 0 : (h % 16 == 1 ? (W(1) << ((h >> 8) % 21)) : (h % 40 == 2 ? 1000 + W((h >> 8) % 9000) : 1 + W((h >> 8) % 40)));
            cur += g; keys.push_back(cur);
        }
        if (cur > hi) return false;
        for (size_t i = 0; i < keys.size(); ++i) if (i == 0 || keys[i] != keys[i - 1]) focus.push_back(i);
    } else if (f.kind == "unitop") {
        // 50..649 keys drawn (by a hash of `word`) uniformly from the 1000..20999 values just below the reserved one, the largest valid
        // key included: dense irregular data with many duplicates whose closing points sit next to the reserved value.
        if constexpr (std::is_floating_point_v<K>) return false;
        else {
            auto mix = [](uint64_t x) { x ^= x >> 33; x *= 0xff51afd7ed558ccdull; x ^= x >> 33; x *= 0xc4ceb9fe1a85ec53ull; x ^= x >> 33; return x; };
            uint64_t sd = mix(uint64_t(f.word) + 0x1234567);
            size_t n = 50 + size_t(sd % 600); W span = 1000 + W(mix(sd) % 20000);
            if (hi - span < W(std::numeric_limits<K>::lowest())) span = hi - W(std::numeric_limits<K>::lowest());
            for (size_t i = 0; i + 1 < n; ++i) keys.push_back(hi - W(mix(sd + 77 * (i + 1)) % uint64_t(span)));
            keys.push_back(hi);
            std::sort(keys.begin(), keys.end());
            for (size_t i = 0; i < keys.size(); ++i) if (i == 0 || keys[i] != keys[i - 1]) focus.push_back(i);
        }
    } else if (f.kind == "randtop") {
        // `rep` keys with pseudo-random gaps (a hash of the position and of `word`; mostly 1..31, now and then 200+, 1 in 8 a duplicate)
        // placed so that the LAST key is the largest valid key of the type: irregular data on every level of a multi-level index
        // whose closing points sit next to the reserved value.
        if constexpr (std::is_floating_point_v<K>) return false;
        else {
            std::vector<W> gaps; W total = 0;
            for (long i = 1; i < f.rep; ++i) {
                uint32_t h = uint32_t((uint64_t(i) * 0x9E3779B97F4A7C15ull + uint64_t(f.word) * 0xC2B2AE3D27D4EB4Full) >> 37);
                W g = (h & 7) == 0 ? 0 : (h % 97 == 0 ? 200 + (h >> 8) % 300 : 1 + (h >> 3) % 31);
                gaps.push_back(g); total += g;
            }
            W first = hi - total;
            if (first < W(std::numeric_limits<K>::lowest())) return false;
            W cur = first; keys.push_back(cur);
            for (W g : gaps) { cur += g; keys.push_back(cur); }
            for (size_t i = 0; i < keys.size(); i += (keys.size() > 400 ? 7 : 1)) focus.push_back(i);
            focus.push_back(keys.size() - 1);
        }
    } else if (f.kind == "tworuns") {
        // two duplicate runs meeting just before the end of chunk `seam`: a run of x from `word` positions relative to the start of that
        // chunk up to `width` slots before its end, then width-1 single keys, then a run of z that starts on the LAST slot of the chunk
        // and continues `rep` positions into the next chunk, then a gap of 1000; stride-3 background.
        size_t n = size_t(f.n), p = size_t(f.chunks), chunk = n / p;
        long B = long((size_t(f.seam) + 1) * chunk);                 // first position of the next chunk
        long xs = long(size_t(f.seam) * chunk) + f.word, xe = B - 1 - f.width;   // x occupies [xs, xe]
        long zs = B - 1, ze = B - 1 + f.rep;                         // z occupies [zs, ze]
        if (xs < 1 || xe < xs || ze >= long(n) - 1 || f.width < 1) return false;
        W cur = 1000; keys.resize(n); keys[0] = cur;
        for (size_t i = 1; i < n; ++i) {
            long li = long(i);
            if ((li > xs && li <= xe) || (li > zs && li <= ze)) {} else cur += (li == ze + 1 ? 1000 : 3);
            keys[i] = cur;
        }
        for (long q : {xs - 1, xs, xe, xe + 1, zs - 1, zs, zs + 1, ze, ze + 1, ze + 2}) if (q >= 0 && q < long(n)) focus.push_back(size_t(q));
        focus.push_back(0); focus.push_back(n - 1);
        if (cur > hi) return false;
    } else if (f.kind == "stretch") {
        // `rep` clusters (one segment each), one run of `n` consecutive keys (a single segment covering `n` positions), `width` more
        // clusters: among tens of thousands of evenly advancing intercepts one jumps by `n`, so the succinct structures over the
        // intercepts hold a block of 4096 entries that spans far more bits than the others.
        long csz = 2 * long(eps) + 2; W cur = 1000;
        const W mult[4] = {1, 2, 4, 8};
        auto cluster = [&](long c, long total) {
            size_t first_pos = keys.size();
            for (long j = 0; j < csz; ++j) { cur += 1; keys.push_back(cur); }
            cur += 10 * csz * mult[(c / 300) % 4];
            if (c < 3 || c + 3 >= total || c % 997 == 0) { focus.push_back(first_pos); focus.push_back(first_pos + size_t(csz) - 1); }
        };
        for (long c = 0; c < f.rep; ++c) cluster(c, f.rep);
        size_t s0 = keys.size();
        for (long j = 0; j < f.n; ++j) { cur += 1; keys.push_back(cur); }
        for (size_t pos : {s0, s0 + 1, s0 + size_t(f.n) / 2, s0 + size_t(f.n) - 2, s0 + size_t(f.n) - 1}) if (pos < keys.size()) focus.push_back(pos);
        cur += 1000;
        for (long c = 0; c < f.width; ++c) cluster(c, f.width);
        if (cur > hi) return false;
    } else if (f.kind == "capacity") {
        // `rep` clusters of `n` (default eps^2 + 1) consecutive keys, one bottom segment each, so that the number of segments sits just
        // below n / eps^2 (what PGMIndex::build reserves for its segment array): the array then has to grow while an upper level is
        // being built. The gap after a cluster changes every three clusters following a hash of `word`, which keeps upper-level
        // segments short.
        long alpha = f.n > 0 ? f.n : long(eps * eps + 1); W cur = 1000;
        const W mult[4] = {1, 9, 80, 700};
        for (long c = 0; c < f.rep; ++c) {
            size_t first_pos = keys.size();
            for (long j = 0; j < alpha; ++j) { cur += 1; keys.push_back(cur); }
            uint32_t h = uint32_t((c / 3 + f.word) * 2654435761u) >> 13;
            cur += 10 * alpha * mult[h & 3];
            if (f.rep <= 64 || c < 3 || c + 3 >= f.rep || c % 11 == 0) { focus.push_back(first_pos); focus.push_back(first_pos + size_t(alpha) - 1); }
        }
        if (cur > hi) return false;
    } else if (f.kind == "span") {
        // `rep` clusters of 2*eps+2 consecutive keys spread evenly over the WHOLE domain of the key type: the first cluster starts `width`
        // above lowest(), the last one ends `word` below the largest valid key (the reserved value minus one). Every computation on
        // key differences (bucket widths, Elias-Fano universe, slopes) meets values next to the width of the type.
        if constexpr (std::is_floating_point_v<K>) return false;
        else {
            W lo = W(std::numeric_limits<K>::lowest()) + f.width, top = W(max_valid<K>()) - f.word;
            long csz = 2 * long(eps) + 2, S = f.rep;
            if (S < 2) return false;
            W stride = (top - lo - csz + 1) / (S - 1);
            if (stride < csz + 2) return false;
            for (long c = 0; c < S; ++c) {
                W start = c == S - 1 ? top - csz + 1 : lo + stride * c;
                size_t first_pos = keys.size();
                for (long j = 0; j < csz; ++j) keys.push_back(start + j);
                if (S <= 300 || c < 3 || c + 3 >= S || c % 29 == 0) { focus.push_back(first_pos); focus.push_back(first_pos + size_t(csz) - 1); extra.push_back(start + csz - 1 + stride / 2); extra.push_back(start + csz + 1); }
            }
        }
    } else return false;

    data.resize(keys.size());
    for (size_t i = 0; i < keys.size(); ++i) data[i] = K(keys[i]);
    for (size_t pos : focus) add_neighbours<K>(queries, data[pos]);
    for (W x : extra) if (x >= W(std::numeric_limits<K>::lowest()) && x <= W(max_valid<K>())) queries.push_back(K(x));
    queries.push_back(std::numeric_limits<K>::lowest()); queries.push_back(max_valid<K>());
    add_neighbours<K>(queries, data.back());
    std::sort(queries.begin(), queries.end());
    queries.erase(std::unique(queries.begin(), queries.end()), queries.end());
    return true;
}

}  // namespace ks
