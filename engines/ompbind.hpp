// Binding of the sequentialised chunked builder to the real OpenMP one: both must produce exactly the same index.
// Included by engines/segmentation.cpp (chunks answered by the harness, run sequentially) and by engines/ompbind_main.cpp
// (compiled with -fopenmp, real threads). The digest covers every segment (key, slope bits, intercept) and the level offsets.
#pragma once
#include "keyspace.hpp"
#include "pgm/pgm_index.hpp"
#include <cstring>

namespace ompbind {
inline std::vector<ks::FamilySpec> specs() {
    std::vector<ks::FamilySpec> v;
    for (long p : {2L, 3L, 5L, 16L}) {
        for (long w = 0; w < 4096; w += 61) { ks::FamilySpec s; s.kind = "seam"; s.n = 32768 + (w % 3 == 0 ? 0 : (w % 3 == 1 ? 1 : 7)); s.chunks = p; s.seam = 0; s.word = w; v.push_back(s); }
        for (long j = 0; j < p; j += (p > 5 ? 5 : 1)) for (long len : {1L, 2L}) for (long so : {-1L, 1L}) for (long eo : {-2L, 0L}) { if (j + len > p) continue; ks::FamilySpec s; s.kind = "longrun"; s.n = 32768; s.chunks = p; s.seam = j; s.rep = len; s.width = so; s.word = eo; v.push_back(s); }
        for (long d : {1L, 3L}) { ks::FamilySpec s; s.kind = "chunktail"; s.chunks = p; s.rep = 44000; s.word = d; s.width = 300; v.push_back(s); }
    }
    return v;
}
template<typename Index> uint64_t index_digest(const Index &ix) {
    uint64_t h = 1469598103934665603ull;
    auto add = [&](uint64_t x) { for (int i = 0; i < 8; ++i) { h ^= (x >> (8 * i)) & 0xff; h *= 1099511628211ull; } };
    for (auto &s : ix.segments) { uint64_t k = 0, sl = 0; memcpy(&k, &s.key, sizeof(s.key)); memcpy(&sl, &s.slope, sizeof(s.slope)); add(k); add(sl); add(s.intercept); }
    for (auto o : ix.levels_offsets) add(o);
    add(ix.n);
    return h;
}
// digest of the indexes built over one family member (the caller has arranged for spec.chunks construction threads)
inline bool digest(const ks::FamilySpec &spec, uint64_t &out) {
    std::vector<uint64_t> data, q;
    if (!ks::generate_family<uint64_t>(spec, 1, data, q)) return false;
    pgm::PGMIndex<uint64_t, 1, 1, float> a(data.begin(), data.end());
    pgm::PGMIndex<uint64_t, 4, 2, double> b(data.begin(), data.end());
    std::vector<double> fd(data.begin(), data.end());
    pgm::PGMIndex<double, 1, 1, double> c(fd.begin(), fd.end());
    out = index_digest(a) * 31 + index_digest(b) * 17 + index_digest(c);
    return true;
}
}
