// Engine `search`: bounded-exhaustive exploration of the static indexes' search contract on the real code.
// Serves C01, C02, C07 (PGMIndex), C08 (Compressed), C09 (Bucketing), C10 (Elias-Fano).
#pragma once
#include "../mc/common.hpp"
#include "keyspace.hpp"

#include <cmath>
#include <limits>
#include <type_traits>

// ---- hook H3: routing log -----------------------------------------------------------------------------------------
namespace verif {
struct RouteRec { int level; size_t pos, lo, chosen, level_size; };
extern std::vector<RouteRec> route_log;
extern bool route_on;
extern int chunks;   // number of construction chunks: the minimum of what the interposed omp_get_num_procs / omp_get_max_threads answer
extern int env;      // 0: both answer `chunks`; 1: more threads requested than processors; 2: more processors than threads
}
#define PGM_INDEX_VERIF_ROUTE(l, pos, lo, ch, sz) \
    do { if (verif::route_on) verif::route_log.push_back({int(l), size_t(pos), size_t(lo), size_t(ch), size_t(sz)}); } while (0)

#include "pgm/pgm_index.hpp"
#include "pgm/pgm_index_variants.hpp"

namespace se {

using mc::Run;

enum Prop { P_C01 = 1, P_C02 = 2, P_C07 = 7, P_C08 = 8, P_C09 = 9, P_C10 = 10, P_C17 = 17 };

struct Counters {
    int arrays, nontrivial, searches, present, absent, multiseg, multilevel, dups, extreme, builds_chunked, route_steps,
        routes_binary, family_arrays, exceptions, cfg_limit, internal_checks, far_queries;
    explicit Counters(Run &r) {
        arrays = r.counter("arrays_built"); nontrivial = r.counter("arrays_with_2plus_distinct_keys");
        searches = r.counter("searches_checked"); present = r.counter("present_key_queries"); absent = r.counter("absent_key_queries");
        multiseg = r.counter("arrays_with_2plus_segments"); multilevel = r.counter("arrays_with_3plus_levels");
        dups = r.counter("arrays_with_duplicates"); extreme = r.counter("arrays_touching_lowest_or_max_minus_1");
        builds_chunked = r.counter("chunked_builds"); route_steps = r.counter("routing_steps_checked");
        routes_binary = r.counter("routing_steps_binary_search_path"); family_arrays = r.counter("large_family_arrays");
        exceptions = r.counter("unexpected_exceptions"); cfg_limit = r.counter("inputs_with_more_segments_than_a_fixed_width_bucket_table_can_address"); internal_checks = r.counter("internal_structure_checks");
        far_queries = r.counter("far_queries_2p63_or_more_from_nearest_key");
    }
};

// ---- class traits ---------------------------------------------------------------------------------------------------
template<typename T> struct is_pgm : std::false_type {};
template<typename K, size_t E, size_t R, typename F> struct is_pgm<pgm::PGMIndex<K, E, R, F>> : std::true_type {
    static constexpr size_t eps_rec = R; using key = K; using floating = F;
};
template<typename T> struct is_compressed : std::false_type {};
template<typename K, size_t E, size_t R, typename F> struct is_compressed<pgm::CompressedPGMIndex<K, E, R, F>> : std::true_type {
    static constexpr size_t eps_rec = R;
};
template<typename T> struct is_bucketing : std::false_type {};
template<typename K, size_t E, size_t S, uint8_t B, typename F> struct is_bucketing<pgm::BucketingPGMIndex<K, E, S, B, F>> : std::true_type {};
template<typename T> struct bucket_cell_bits { static constexpr size_t value = 0; using base = void; };
template<typename K, size_t E, size_t S, uint8_t B, typename F> struct bucket_cell_bits<pgm::BucketingPGMIndex<K, E, S, B, F>> { static constexpr size_t value = B; using base = pgm::PGMIndex<K, E, 0, F>; };
template<typename T> struct is_ef : std::false_type {};
template<typename K, size_t E, typename F> struct is_ef<pgm::EliasFanoPGMIndex<K, E, F>> : std::true_type {};

// ---- the oracle for one search result -------------------------------------------------------------------------------
template<typename K>
inline const char *check_result(const std::vector<K> &data, K q, size_t eps, size_t pos, size_t lo, size_t hi, bool want_c01, bool want_c02) {
    size_t n = data.size();
    if (!(lo <= hi)) return "lo > hi";
    if (!(hi <= n)) return "hi > n";
    if (hi - lo > 2 * eps + 2) return "hi - lo > 2*Epsilon + 2";
    auto glb = size_t(std::lower_bound(data.begin(), data.end(), q) - data.begin());
    bool present = glb < n && data[glb] == q;
    if (want_c01 && present) {
        if (!(lo <= pos)) return "lo > pos";
        if (!(lo <= glb && glb < hi)) return "first occurrence of a present key not in [lo, hi)";
    }
    if (want_c02) {
        auto rlb = size_t(std::lower_bound(data.begin() + lo, data.begin() + hi, q) - data.begin());
        if (rlb != glb) return "lower_bound inside [lo, hi) differs from the global lower_bound";
    }
    return nullptr;
}

template<typename I> struct slope_of { using type = float; };
template<typename K, size_t E, size_t R, typename F> struct slope_of<pgm::PGMIndex<K, E, R, F>> { using type = F; };
template<typename K, size_t E, size_t R, typename F> struct slope_of<pgm::CompressedPGMIndex<K, E, R, F>> { using type = F; };
template<typename K, size_t E, typename F> struct slope_of<pgm::EliasFanoPGMIndex<K, E, F>> { using type = F; };

template<typename Index, typename K>
struct Explorer {
    Run &run; Counters &cn; int prop; const char *cfg_name;
    static constexpr size_t Eps = Index::epsilon_value;

    Explorer(Run &r, Counters &c, int prop, const char *name) : run(r), cn(c), prop(prop), cfg_name(name) {}

    std::string case_of(const std::string &data_desc, const std::string &q) const {
        return std::string("cfg=") + cfg_name + " chunks=" + std::to_string(verif::chunks) + (verif::env ? " env=" + std::to_string(verif::env) : "") + " " + data_desc + (q.empty() ? "" : " q=" + q);
    }

    // C07 route check for one query (PGMIndex with EpsilonRecursive > 0 only)
    void check_route(const Index &idx, K q, const std::string &data_desc) {
        if constexpr (is_pgm<Index>::value) {
            constexpr size_t R = is_pgm<Index>::eps_rec;
            if constexpr (R > 0) {
                K k = std::max(idx.first_key, q);
                using Seg = std::remove_reference_t<decltype(idx.segments[0])>;
                constexpr bool binary_path = R > 8 * 64 / sizeof(Seg);
                size_t expected_levels = idx.height() >= 1 ? idx.height() - 1 : 0;
                if (verif::route_log.size() != expected_levels) {
                    run.violation(case_of(data_desc, mc::key_str(q)), "routing visited " + std::to_string(verif::route_log.size()) + " levels, index has " + std::to_string(expected_levels) + " below the root");
                    return;
                }
                for (auto &r : verif::route_log) {
                    run.add(cn.route_steps);
                    if (binary_path) run.add(cn.routes_binary);
                    size_t off = idx.levels_offsets[r.level];
                    size_t cnt = idx.levels_offsets[r.level + 1] - off - 1;   // without the sentinel
                    if (r.level_size != cnt + 1) { run.violation(case_of(data_desc, mc::key_str(q)), "hook level size mismatch"); return; }
                    // rightmost segment of the level whose key is <= k (the level's keys were checked to be strictly increasing when
                    // the index was built, so a binary search over them is an exact oracle)
                    size_t want;
                    {
                        size_t lo_i = 0, hi_i = cnt;   // first index whose key is > k
                        while (lo_i < hi_i) { size_t mid = (lo_i + hi_i) / 2; if (idx.segments[off + mid].key <= k) lo_i = mid + 1; else hi_i = mid; }
                        want = lo_i == 0 ? 0 : lo_i - 1;
                    }
                    const char *err = nullptr;
                    if (r.chosen != want) err = "level routing did not choose the rightmost segment with key <= query";
                    else if (r.lo > r.chosen) err = "scan started after the responsible segment";
                    else if (r.chosen - r.lo > 2 * R + 2) err = "more than 2*EpsilonRecursive+3 segments inspected on a level";
                    else if ((r.chosen > r.pos ? r.chosen - r.pos : r.pos - r.chosen) > R + 1) err = "responsible segment farther than EpsilonRecursive+1 from the predicted position";
                    if (err) {
                        run.violation(case_of(data_desc, mc::key_str(q)), std::string(err) + " (level " + std::to_string(r.level) + " pos " + std::to_string(r.pos) + " lo " + std::to_string(r.lo) + " chosen " + std::to_string(r.chosen) + " want " + std::to_string(want) + ")");
                        return;
                    }
                }
            }
        }
    }

    // C07 structural part: level sizes shrink geometrically
    void check_level_sizes(const Index &idx, const std::string &data_desc, int chunks_used) {
        if constexpr (is_pgm<Index>::value) {
            constexpr size_t R = is_pgm<Index>::eps_rec;
            if constexpr (R > 0) {
                for (size_t l = 0; l + 1 < idx.levels_offsets.size(); ++l) {   // keys of every level strictly increasing (sentinel excluded)
                    size_t off = idx.levels_offsets[l], cnt = idx.levels_offsets[l + 1] - off - 1;
                    for (size_t i = 1; i < cnt; ++i) if (!(idx.segments[off + i - 1].key < idx.segments[off + i].key)) { run.violation(case_of(data_desc, ""), "segment keys of level " + std::to_string(l) + " are not strictly increasing"); return; }
                }
                size_t m = idx.levels_offsets[1] - idx.levels_offsets[0] - 1;   // bottom level, without the sentinel
                for (size_t l = 1; l + 1 < idx.levels_offsets.size(); ++l) {
                    size_t cnt = idx.levels_offsets[l + 1] - idx.levels_offsets[l] - 1;
                    size_t c = m >= (size_t(1) << 15) ? size_t(chunks_used) : 1;
                    // +1: the closing segment that build() may append after the builder's own segments
                    if (cnt > m / (2 * R + 1) + c + 1)
                        run.violation(case_of(data_desc, ""), "level " + std::to_string(l) + " has " + std::to_string(cnt) + " segments over " + std::to_string(m) + " below: more than floor(m/(2R+1)) + c (+1 closing)");
                    m = cnt;
                }
                if (idx.levels_offsets.size() >= 2) {
                    size_t top = idx.levels_offsets.back() - idx.levels_offsets[idx.levels_offsets.size() - 2] - 1;
                    if (top > 2) run.violation(case_of(data_desc, ""), "root level has more than one segment plus closing segment");
                }
            }
        }
    }

    // class-specific structural oracles, evaluated once per built index / per query
    void check_internal_build(const Index &idx, const std::vector<K> &data, const std::string &data_desc) {
        if constexpr (is_compressed<Index>::value) {
            for (auto &lev : idx.levels) {
                run.add(cn.internal_checks);
                for (size_t i = 0; i + 1 < lev.keys.size(); ++i)
                    if (!(lev.get_intercept(i) < lev.get_intercept(i + 1))) { run.violation(case_of(data_desc, ""), "compressed level intercepts not strictly increasing"); return; }
            }
        }
        if constexpr (is_bucketing<Index>::value) {
            run.add(cn.internal_checks);
            for (size_t i = 0; i + 1 < idx.top_level.size(); ++i)
                if (idx.top_level[i] > idx.top_level[i + 1] || idx.top_level[i + 1] > idx.segments.size()) { run.violation(case_of(data_desc, ""), "bucket table not monotone or beyond the segments"); return; }
        }
        (void) data;
    }

    void check_internal_query(const Index &idx, const std::vector<K> &data, K q, const std::string &data_desc) {
        if constexpr (is_bucketing<Index>::value) {
            if (q < idx.first_key || q > idx.last_key) return;
            run.add(cn.internal_checks);
            auto it = idx.segment_for_key(q);
            // rightmost real segment (the last element of segments is the sentinel) whose key <= q
            size_t want = 0, cnt = idx.segments.size() - 1;
            for (size_t i = 0; i < cnt; ++i) if (idx.segments[i].key <= q) want = i;
            if (size_t(it - idx.segments.begin()) != want)
                run.violation(case_of(data_desc, mc::key_str(q)), "bucket slice does not lead to the rightmost segment starting at or before the key");
        }
        if constexpr (is_ef<Index>::value) {
            K k = std::max(idx.first_key, q);
            run.add(cn.internal_checks);
            // reference: a PGMIndex<K,Eps,0> built on the same data has the same bottom level (same build())
            auto [r, origin] = idx.pred(uint64_t(k - idx.first_key));
            size_t cnt = ref_keys.size();
            size_t want = 0;
            for (size_t i = 0; i < cnt; ++i) if (ref_keys[i] <= k) want = i;
            if (r != want || K(origin + idx.first_key) != ref_keys[want])
                run.violation(case_of(data_desc, mc::key_str(q)), "Elias-Fano predecessor did not select the rightmost segment starting at or before the key (got " + std::to_string(r) + ", want " + std::to_string(want) + ")");
        }
        (void) data;
    }

    std::vector<K> ref_keys;   // Elias-Fano: segment keys of the reference one-level index (sentinel excluded)

    // Build an index over data and check every query. data_desc reproduces the data in a replay.
    void check_array(const std::vector<K> &data, const std::vector<K> &queries, const std::string &data_desc, bool large) {
        run.set_case(case_of(data_desc, "(build)"));
        run.add(cn.arrays);
        if (large) run.add(cn.family_arrays);
        bool nontrivial = data.front() != data.back();
        if (nontrivial) run.add(cn.nontrivial);
        bool has_dup = false;
        for (size_t i = 1; i < data.size(); ++i) if (data[i] == data[i - 1]) { has_dup = true; break; }
        if (has_dup) run.add(cn.dups);
        if (data.front() == std::numeric_limits<K>::lowest() || data.back() == ks::max_valid<K>()) run.add(cn.extreme);
        if (data.size() >= (size_t(1) << 15) && verif::chunks > 1) run.add(cn.builds_chunked);

        Index *idxp = nullptr;
        try { idxp = new Index(data.begin(), data.end()); }
        catch (const std::exception &e) {
            // A BucketingPGMIndex with a fixed cell width (TopLevelBitSize > 0) cannot address more than 2^TopLevelBitSize segments and
            // says so with std::invalid_argument: that input is outside this configuration, provided the plain one-level index over
            // the same data really has that many segments (counted independently here).
            if constexpr (bucket_cell_bits<Index>::value > 0) {
                if (std::string(e.what()).rfind("TopLevelBitSize must be >=", 0) == 0) {
                    typename bucket_cell_bits<Index>::base plain(data.begin(), data.end());
                    size_t m = plain.segments.size();
                    size_t need = m == 0 ? 0 : 64 - size_t(__builtin_clzll(m));
                    if (need > bucket_cell_bits<Index>::value) { run.add(cn.cfg_limit); return; }
                }
            }
            run.add(cn.exceptions);
            run.violation(case_of(data_desc, ""), std::string("construction over valid data threw: ") + e.what());
            return;
        }
        Index &idx = *idxp;
        bool can_count = true;   // CompressedPGMIndex::segments_count() needs a stored level; C17 calls the accessors unguarded
        if constexpr (is_compressed<Index>::value) can_count = !idx.levels.empty() || prop == P_C17;
        if (prop == P_C17) { run.set_case(case_of(data_desc, "(accessors)")); volatile size_t sink = idx.size_in_bytes() + idx.height(); (void) sink; }
        if (can_count && idx.segments_count() >= 2) run.add(cn.multiseg);
        if (idx.height() >= 3) run.add(cn.multilevel);
        if (prop == P_C07) check_level_sizes(idx, data_desc, verif::chunks);
        if (prop == P_C08 || prop == P_C09 || prop == P_C10) check_internal_build(idx, data, data_desc);
        if constexpr (is_ef<Index>::value) {
            if (prop == P_C10) {
                pgm::PGMIndex<K, Eps, 0, typename std::remove_reference_t<decltype(idx.segments[0].slope)>> ref(data.begin(), data.end());
                ref_keys.clear();
                for (size_t i = 0; i < ref.segments_count(); ++i) ref_keys.push_back(ref.segments[i].key);
            }
        }

        bool c01 = prop != P_C02 && prop != P_C07, c02 = prop != P_C01 && prop != P_C07;
        bool only_present = prop == P_C01;
        std::string cs;
        for (K q : queries) {
            bool present = std::binary_search(data.begin(), data.end(), q);
            if (only_present && !present) continue;
            if (!large) { cs = case_of(data_desc, mc::key_str(q)); run.set_case(cs); }
            else { cs = case_of(data_desc, mc::key_str(q)); run.set_case(cs); }
            if (prop == P_C07) { verif::route_log.clear(); verif::route_on = true; }
            auto res = idx.search(q);
            verif::route_on = false;
            run.add(cn.searches);
            run.add(present ? cn.present : cn.absent);
            if (prop == P_C07) { check_route(idx, q, data_desc); continue; }
            if (prop == P_C17) continue;
            if (const char *err = check_result<K>(data, q, Eps, res.pos, res.lo, res.hi, c01, c02))
                run.violation(cs, std::string(err) + " (pos " + std::to_string(res.pos) + " lo " + std::to_string(res.lo) + " hi " + std::to_string(res.hi) + ")");
            if (prop == P_C09 || prop == P_C10) check_internal_query(idx, data, q, data_desc);
            if constexpr (is_bucketing<Index>::value) {
                if (q < data.front() && !(res.lo == 0 && res.hi == 0)) run.violation(cs, "query below the first key must give the empty range at 0");
                if (q > data.back() && !(res.lo == data.size() && res.hi == data.size())) run.violation(cs, "query above the last key must give the empty range at n");
            }
        }
        delete idxp;
    }

    // ---- small scope ------------------------------------------------------------------------------------------------
    void small_scope(int palette_id, int len, int first) {
        auto pal = ks::palette<K>(palette_id);
        auto queries = ks::query_alphabet<K>(pal);
        std::vector<K> data(len);
        bool sampled = false;
        mc::for_each_multiset(int(pal.size()), len, first, [&](const std::vector<int> &idx) {
            for (int i = 0; i < len; ++i) data[i] = pal[idx[i]];
            std::string desc = "data=" + mc::keys_str(data);
            if (!sampled && len >= 4 && first == (palette_id * 3 + len) % 10 && idx[len - 1] != idx[0] && idx[1] != idx[0]) { run.sample(case_of(desc, "*all " + std::to_string(queries.size()) + " alphabet queries*")); sampled = true; }
            check_array(data, queries, desc, false);
            return !run.deadline_passed();
        });
    }

    // ---- large families ---------------------------------------------------------------------------------------------
    void family(const ks::FamilySpec &spec) {
        std::vector<K> data, queries;
        if (!ks::generate_family<K>(spec, Eps, data, queries)) return;
        int saved = verif::chunks;
        verif::chunks = spec.chunks;
        verif::env = spec.chunks > 1 ? int((spec.word + spec.seam + spec.rep + spec.n) % 3) : 0;
        check_array(data, queries, "family=" + spec.str(), true);
        // double keys with double slopes: the same member with every key multiplied by 2^150 (exact). The key density then is far
        // below the smallest float (slopes around 2^-150) but an ordinary double, which the slope type of this configuration holds.
        if constexpr (std::is_same_v<K, double> && std::is_same_v<typename slope_of<Index>::type, double>) {
            if (!run.deadline_passed()) {
                const double sc = std::ldexp(1.0, 150);
                for (auto &k : data) k *= sc;
                for (auto &k : queries) k *= sc;
                queries.erase(std::remove_if(queries.begin(), queries.end(), [](double q) { return !std::isfinite(q); }), queries.end());   // the largest finite query times 2^150 is the reserved +infinity
                check_array(data, queries, "family=" + spec.str() + " scale=150", true);
            }
        }
        verif::chunks = saved; verif::env = 0;
    }

    void replay(const std::map<std::string, std::string> &m) {
        std::vector<K> data, queries;
        if (m.count("chunks")) verif::chunks = atoi(m.at("chunks").c_str());
        int env_replay = m.count("env") ? atoi(m.at("env").c_str()) : 0;
        std::string desc;
        if (m.count("family")) {
            auto spec = ks::FamilySpec::parse(m.at("family"));
            verif::chunks = spec.chunks;
            if (!ks::generate_family<K>(spec, Eps, data, queries)) { fprintf(stderr, "cannot regenerate family\n"); exit(2); }
            desc = "family=" + m.at("family");
        } else { data = mc::parse_keys<K>(m.at("data")); desc = "data=" + m.at("data"); }
        if constexpr (std::is_floating_point_v<K>) if (m.count("scale") && m.count("family")) { const K sc = K(std::ldexp(1.0, atoi(m.at("scale").c_str()))); for (auto &k : data) k *= sc; for (auto &k : queries) k *= sc; queries.erase(std::remove_if(queries.begin(), queries.end(), [](K q) { return !std::isfinite(q); }), queries.end()); desc += " scale=" + m.at("scale"); }
        std::string q = m.count("q") ? m.at("q") : "";
        if (!q.empty() && q[0] != '(' && q[0] != '*') queries = {mc::parse_key<K>(q)};
        else if (!m.count("family")) { std::vector<K> pal(data.begin(), data.end()); pal.erase(std::unique(pal.begin(), pal.end()), pal.end()); queries = ks::query_alphabet<K>(pal); }
        verif::env = env_replay;
        printf("replay: cfg=%s n=%zu chunks=%d env=%d queries=%zu\n", cfg_name, data.size(), verif::chunks, verif::env, queries.size());
        check_array(data, queries, desc, data.size() > 64);
    }
};

// ---- registry ---------------------------------------------------------------------------------------------------------
struct CfgEntry {
    const char *name;
    const char *klass;      // pgm | compressed | bucketing | eliasfano
    int tier;               // 0: quick and thorough, 1: thorough only
    int key_class;          // ks::key_class<K>()
    size_t eps, eps_rec;
    bool floating_key;
    void (*small)(Run &, Counters &, int prop, int palette, int len, int first);
    void (*family)(Run &, Counters &, int prop, const ks::FamilySpec &);
    void (*replay)(Run &, Counters &, int prop, const std::map<std::string, std::string> &);
    int npalettes;
};
std::vector<CfgEntry> &registry();
struct Registrar { explicit Registrar(const CfgEntry &e) { registry().push_back(e); } };

template<typename Index, typename K>
struct Thunks {
    static const char *&name() { static const char *n = ""; return n; }
    static void small(Run &r, Counters &c, int prop, int palette, int len, int first) { Explorer<Index, K>(r, c, prop, name()).small_scope(palette, len, first); }
    static void family(Run &r, Counters &c, int prop, const ks::FamilySpec &s) { Explorer<Index, K>(r, c, prop, name()).family(s); }
    static void replay(Run &r, Counters &c, int prop, const std::map<std::string, std::string> &m) { Explorer<Index, K>(r, c, prop, name()).replay(m); }
};

#define SE_CAT2(a, b) a##b
#define SE_CAT(a, b) SE_CAT2(a, b)
#define SE_REGISTER(NAME, KLASS, TIER, K, EPS, EPSREC, ...)                                                            \
    static se::Registrar SE_CAT(reg_, __LINE__)([] {                                                                   \
        using I = __VA_ARGS__;                                                                                         \
        se::Thunks<I, K>::name() = NAME;                                                                               \
        return se::CfgEntry{NAME, KLASS, TIER, ks::key_class<K>(), EPS, EPSREC, std::is_floating_point_v<K>,           \
                            &se::Thunks<I, K>::small, &se::Thunks<I, K>::family, &se::Thunks<I, K>::replay,            \
                            ks::num_palettes<K>()};                                                                    \
    }());

}  // namespace se
