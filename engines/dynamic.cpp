// Engine `dynamic`: breadth-first exploration of operation histories on the real DynamicPGMIndex (C05, C06, C15).
// State = the real object (copied per transition) + the reference std::map; deduplicated by a canonical form of the object.
#include "../mc/common.hpp"
#include "pgm/pgm_index.hpp"
#include "pgm/pgm_index_dynamic.hpp"
#include <map>
#include <unordered_set>

extern "C" int omp_get_num_procs(void) noexcept { return 1; }
extern "C" int omp_get_max_threads(void) noexcept { return 1; }
extern "C" int omp_get_thread_num(void) noexcept { return 0; }      // pragmas are ignored in this build: every parallel region runs as a team of one
extern "C" int omp_get_num_threads(void) noexcept { return 1; }
extern "C" int omp_in_parallel(void) noexcept { return 0; }
extern "C" void omp_set_num_threads(int) noexcept {}
extern "C" int omp_get_thread_limit(void) noexcept { return 1; }

using mc::Run;

struct Cn {
    int states, transitions, nontrivial, point_q, iter_steps, range_q, inv_checks, index_checks, merges, deep_merges, max_depth, dedup_hits, initial_states, levels3, capped_expl, min_full_depth_p1;
    explicit Cn(Run &r) {
        states = r.counter("distinct_canonical_states"); transitions = r.counter("transitions_executed"); nontrivial = r.counter("states_with_data_below_the_buffer");
        point_q = r.counter("point_queries_checked"); iter_steps = r.counter("iterator_steps_checked"); range_q = r.counter("range_queries_checked");
        inv_checks = r.counter("invariant_evaluations"); index_checks = r.counter("per_level_index_searches_checked"); merges = r.counter("transitions_that_merged_levels");
        deep_merges = r.counter("transitions_merging_3plus_levels"); max_depth = r.counter("max_depth_reached"); capped_expl = r.counter("explorations_stopped_by_state_cap"); min_full_depth_p1 = r.counter("shallowest_fully_completed_depth_of_a_capped_exploration_plus_1"); dedup_hits = r.counter("transitions_into_already_seen_states");
        initial_states = r.counter("initial_states"); levels3 = r.counter("states_with_3plus_nonempty_levels");
    }
};

// ---- value alphabets ------------------------------------------------------------------------------------------------------
template<typename V> struct Vals;
template<> struct Vals<uint32_t> { static uint32_t get(int i) { return i ? 2u : 1u; } static const char *name() { return "u32"; } };
template<> struct Vals<uint64_t> { static uint64_t get(int i) { return i ? 0xFFFFFFFFull : (1ull << 40); } static const char *name() { return "u64"; } };   // the largest 32-bit key value is an ordinary 64-bit mapped value
template<> struct Vals<int32_t> { static int32_t get(int i) { return i ? -1 : 5; } static const char *name() { return "i32"; } };   // -1 is an ordinary value
static uint32_t g_cells[2] = {111, 222};
template<> struct Vals<uint32_t *> { static uint32_t *get(int i) { return &g_cells[i]; } static const char *name() { return "ptr"; } };
template<> struct Vals<uint8_t> { static uint8_t get(int i) { return i ? uint8_t(254) : uint8_t(0); } static const char *name() { return "u8"; } };   // 254 is next to the reserved 255
template<> struct Vals<double> { static double get(int i) { return i ? std::numeric_limits<double>::lowest() : 0.5; } static const char *name() { return "f64"; } };
template<> struct Vals<float> { static float get(int i) { return i ? -std::numeric_limits<float>::infinity() : std::numeric_limits<float>::infinity(); } static const char *name() { return "f32"; } };   // both infinities are ordinary values: only numeric_limits::max() is reserved
template<> struct Vals<std::string> { static std::string get(int i) { return i ? "b" : "a"; } static const char *name() { return "str"; } };

struct DynCfg { uint8_t base, buffer_level, index_level; };
struct Op { int kind; int key_idx; int val; };   // kind 0 insert_or_assign, 1 erase

template<typename K, typename V, typename PGMType>
struct Explorer {
    using Dyn = pgm::DynamicPGMIndex<K, V, PGMType>;
    using Model = std::map<K, int>;
    Run &run; Cn &cn; int prop; const char *type_name; DynCfg cfg; std::vector<K> keys; std::vector<K> queries;
    std::string cfg_str;

    Explorer(Run &r, Cn &c, int prop, const char *tn, DynCfg cfg, std::vector<K> keys) : run(r), cn(c), prop(prop), type_name(tn), cfg(cfg), keys(std::move(keys)) {
        using W = __int128;
        W lo = std::numeric_limits<K>::min(), hi = W(std::numeric_limits<K>::max()) - 1;
        std::set<K> q;
        for (K k : this->keys) for (W d = -1; d <= 1; ++d) { W x = W(k) + d; if (x >= lo && x <= hi) q.insert(K(x)); }
        q.insert(K(lo)); q.insert(K(hi));
        queries.assign(q.begin(), q.end());
        cfg_str = std::string("type=") + tn + " base=" + std::to_string(cfg.base) + " buf=" + std::to_string(cfg.buffer_level) + " idx=" + std::to_string(cfg.index_level);
    }

    int val_index(const V &v) const { return v == Vals<V>::get(0) ? 0 : v == Vals<V>::get(1) ? 1 : -1; }

    std::string canon(const Dyn &d) const {
        std::string s = "u" + std::to_string(int(d.used_levels));
        for (size_t li = 0; li < d.levels.size(); ++li) {
            auto &lev = d.levels[li];
            if (lev.empty()) continue;
            s += "|L" + std::to_string(li + d.min_level) + ":";
            for (auto &it : lev) { s += mc::key_str(K(it.first)); s += it.deleted() ? "T" : (val_index(it.second) == 0 ? "a" : val_index(it.second) == 1 ? "b" : "?"); s += ','; }
        }
        return s;
    }

    std::string hist_str(const std::string &init, const std::vector<Op> &ops) const {
        std::string s = cfg_str + " keys=" + mc::keys_str(keys) + " init=" + (init.empty() ? "-" : init) + " ops=";
        for (size_t i = 0; i < ops.size(); ++i) {
            if (i) s += ',';
            s += ops[i].kind == 0 ? "I" + std::to_string(ops[i].key_idx) + (ops[i].val ? "b" : "a") : "E" + std::to_string(ops[i].key_idx);
        }
        if (ops.empty()) s += "-";
        return s;
    }

    // ---- oracles ----------------------------------------------------------------------------------------------------------
    bool check_points(const Dyn &d, const Model &m, const std::string &cs) {
        auto e = d.end();
        for (K q : queries) {
            run.add(cn.point_q, 3);
            auto mit = m.find(q);
            auto it = d.find(q);
            if (mit == m.end()) { if (it != e) { run.violation(cs + " q=" + mc::key_str(q), "find() returned an element for a key that is not live"); return false; } }
            else {
                if (it == e) { run.violation(cs + " q=" + mc::key_str(q), "find() returned end() for a live key"); return false; }
                if (!(K(it->first) == q) || val_index(it->second) != mit->second) { run.violation(cs + " q=" + mc::key_str(q), "find() returned a wrong key or a stale value"); return false; }
            }
            if (d.count(q) != (mit == m.end() ? 0u : 1u)) { run.violation(cs + " q=" + mc::key_str(q), "count() disagrees with the ordered map"); return false; }
            auto mlb = m.lower_bound(q);
            auto lb = d.lower_bound(q);
            if (mlb == m.end()) { if (lb != e) { run.violation(cs + " q=" + mc::key_str(q), "lower_bound() returned an element although no live key is >= the query"); return false; } }
            else {
                if (lb == e) { run.violation(cs + " q=" + mc::key_str(q), "lower_bound() returned end() although a live key >= the query exists"); return false; }
                if (!(K(lb->first) == mlb->first) || val_index(lb->second) != mlb->second) {
                    run.violation(cs + " q=" + mc::key_str(q), "lower_bound() designates key " + mc::key_str(K(lb->first)) + ", the ordered map says " + mc::key_str(mlb->first) + " (or the value is stale)"); return false; }
            }
        }
        return true;
    }

    bool check_traversal(const Dyn &d, const Model &m, const std::string &cs) {
        auto e = d.end();
        auto walk = [&](typename Dyn::iterator it, typename Model::const_iterator mit, const std::string &from) {
            size_t steps = 0;
            while (true) {
                run.add(cn.iter_steps);
                bool at_end = it == e;
                if (mit == m.end()) { if (!at_end) { run.violation(cs + " from=" + from, "iteration yields an element after the last live key"); return false; } return true; }
                if (at_end) { run.violation(cs + " from=" + from, "iteration reached end() before live key " + mc::key_str(mit->first)); return false; }
                if (!(K(it->first) == mit->first) || val_index(it->second) != mit->second) { run.violation(cs + " from=" + from, "iteration yields key " + mc::key_str(K(it->first)) + " where the ordered map has " + mc::key_str(mit->first) + " (or a stale value)"); return false; }
                ++it; ++mit;
                if (++steps > m.size() + 2) { run.violation(cs + " from=" + from, "iteration does not terminate"); return false; }
            }
        };
        if (!walk(d.begin(), m.begin(), "begin")) return false;
        // the same traversal with the post-increment form: it++ returns the old position and advances the iterator itself
        {
            auto it = d.begin(); auto mit = m.begin(); size_t steps = 0;
            while (mit != m.end()) {
                run.add(cn.iter_steps);
                if (it == e) { run.violation(cs + " from=begin(post-increment)", "iteration with it++ reached end() before live key " + mc::key_str(mit->first)); return false; }
                auto old = it++;
                if (old == e || !(K(old->first) == mit->first) || val_index(old->second) != mit->second) { run.violation(cs + " from=begin(post-increment)", "it++ did not return the position it was at (expected key " + mc::key_str(mit->first) + ")"); return false; }
                ++mit;
                if (++steps > m.size() + 2) { run.violation(cs + " from=begin(post-increment)", "iteration with it++ does not terminate"); return false; }
            }
            if (it != e) { run.violation(cs + " from=begin(post-increment)", "iteration with it++ yields an element after the last live key"); return false; }
        }
        for (K q : queries) if (!walk(d.lower_bound(q), m.lower_bound(q), mc::key_str(q))) return false;
        if (d.size() != m.size()) { run.violation(cs, "size() " + std::to_string(d.size()) + " != number of live keys " + std::to_string(m.size())); return false; }
        if (d.empty() != m.empty()) { run.violation(cs, "empty() disagrees with the ordered map"); return false; }
        for (size_t a = 0; a < queries.size(); ++a)
            for (size_t b = a; b < queries.size(); ++b) {
                run.add(cn.range_q);
                auto res = d.range(queries[a], queries[b]);
                auto mit = m.lower_bound(queries[a]);
                size_t i = 0;
                for (; mit != m.end() && mit->first <= queries[b]; ++mit, ++i) {
                    if (i >= res.size() || !(res[i].first == mit->first) || val_index(res[i].second) != mit->second) {
                        run.violation(cs + " range=" + mc::key_str(queries[a]) + ".." + mc::key_str(queries[b]), "range() differs from the ordered map slice at position " + std::to_string(i)); return false; }
                }
                if (i != res.size()) { run.violation(cs + " range=" + mc::key_str(queries[a]) + ".." + mc::key_str(queries[b]), "range() returned " + std::to_string(res.size()) + " pairs, the ordered map slice has " + std::to_string(i)); return false; }
            }
        return true;
    }

    bool check_invariants(const Dyn &d, const std::string &cs) {
        run.add(cn.inv_checks);
        size_t log_base = 0; while ((size_t(1) << log_base) < cfg.base) ++log_base;
        // the object's parameters are what the constructor was given (every configuration passes base and buffer_level explicitly;
        // index_level 0 selects the documented default: the level that holds 2^24 entries)
        size_t want_min_level = cfg.buffer_level, want_index_level = std::max<size_t>(cfg.buffer_level + 1, cfg.index_level ? size_t(cfg.index_level) : (24 + log_base - 1) / log_base);
        if (d.base != cfg.base || d.min_level != want_min_level || d.min_index_level != want_index_level) {
            run.violation(cs, "container parameters (base " + std::to_string(int(d.base)) + ", buffer level " + std::to_string(int(d.min_level)) + ", first indexed level " + std::to_string(int(d.min_index_level)) +
                              ") differ from the constructor arguments (first indexed level should be " + std::to_string(want_index_level) + ")"); return false; }
        size_t buffer_cap = 0;
        for (int j = 0; j <= d.min_level; ++j) buffer_cap += size_t(1) << (j * log_base);
        for (size_t li = 0; li < d.levels.size(); ++li) {
            auto &lev = d.levels[li];
            size_t level_no = li + d.min_level;
            for (size_t i = 1; i < lev.size(); ++i) if (!(K(lev[i - 1].first) < K(lev[i].first))) { run.violation(cs, "level " + std::to_string(level_no) + " is not strictly sorted by key"); return false; }
            size_t cap = li == 0 ? buffer_cap : size_t(1) << (level_no * log_base);
            if (lev.size() > cap) { run.violation(cs, "level " + std::to_string(level_no) + " holds " + std::to_string(lev.size()) + " entries, capacity " + std::to_string(cap)); return false; }
            if (level_no >= d.used_levels && !lev.empty()) { run.violation(cs, "level " + std::to_string(level_no) + " beyond used_levels holds data"); return false; }
            if (level_no >= d.min_index_level) {
                size_t pi = level_no - d.min_index_level;
                if (pi >= d.pgms.size()) { if (!lev.empty()) { run.violation(cs, "non-empty level " + std::to_string(level_no) + " at or above the index level owns no index"); return false; } continue; }
                auto &idx = d.pgms[pi];
                if (lev.empty()) {
                    if (idx.n != 0 || !idx.segments.empty()) { run.violation(cs, "emptied level " + std::to_string(level_no) + " still owns a non-empty index"); return false; }
                    continue;
                }
                if (idx.n != lev.size()) { run.violation(cs, "index of level " + std::to_string(level_no) + " was built over " + std::to_string(idx.n) + " keys, the level has " + std::to_string(lev.size())); return false; }
                if (!(idx.first_key == K(lev[0].first))) { run.violation(cs, "index of level " + std::to_string(level_no) + " has a stale first key"); return false; }
                // the index answers the search contract for every key of the level and every alphabet key
                std::vector<K> lk; for (auto &it : lev) lk.push_back(K(it.first));
                auto probe = [&](K q) {
                    run.add(cn.index_checks);
                    auto r = idx.search(q);
                    size_t glb = std::lower_bound(lk.begin(), lk.end(), q) - lk.begin();
                    if (!(r.lo <= r.hi && r.hi <= lk.size() && r.lo <= glb && glb <= r.hi && (glb == lk.size() || lk[glb] != q || glb < r.hi))) return false;
                    return true;
                };
                for (K q : lk) if (!probe(q)) { run.violation(cs, "index of level " + std::to_string(level_no) + " does not locate key " + mc::key_str(q) + " of its own level (stale index)"); return false; }
                for (K q : queries) if (!probe(q)) { run.violation(cs, "index of level " + std::to_string(level_no) + " does not bracket query " + mc::key_str(q) + " (stale index)"); return false; }
            }
        }
        return true;
    }

    bool check_state(const Dyn &d, const Model &m, const std::string &cs) {
        run.set_case(cs);
        if (prop == 5) return check_points(d, m, cs);
        if (prop == 6) return check_traversal(d, m, cs);
        if (prop == 15) return check_invariants(d, cs);
        if (prop == 17) { bool a = check_points(d, m, cs); bool b = check_traversal(d, m, cs); return a && b; }
        return true;
    }

    // newest level first: the first entry met for a key decides whether it is live and with which value
    bool implied_model_matches(const Dyn &d, const Model &m, const std::string &cs) {
        Model implied; std::set<K> decided;
        for (auto &lev : d.levels) for (auto &it : lev) if (decided.insert(K(it.first)).second && !it.deleted()) implied[K(it.first)] = val_index(it.second);
        if (implied != m) { run.violation(cs, "the level contents no longer imply the ordered map of this history"); return false; }
        return true;
    }

    struct State { Dyn *obj; Model model; std::vector<Op> hist; };

    Dyn *make_initial(const std::vector<std::pair<K, int>> &init, Model &m) {
        std::vector<std::pair<K, V>> pairs;
        for (auto &p : init) { pairs.emplace_back(p.first, Vals<V>::get(p.second)); if (!m.count(p.first)) m[p.first] = p.second; }
        if (pairs.empty()) return new Dyn(cfg.base, cfg.buffer_level, cfg.index_level);
        return new Dyn(pairs.begin(), pairs.end(), cfg.base, cfg.buffer_level, cfg.index_level);
    }
    static std::string init_str(const std::vector<std::pair<K, int>> &init) {
        std::string s; for (size_t i = 0; i < init.size(); ++i) { if (i) s += ','; s += mc::key_str(init[i].first) + (init[i].second ? "b" : "a"); } return s;
    }
    static std::vector<std::pair<K, int>> parse_init(const std::string &s) {
        std::vector<std::pair<K, int>> v; if (s == "-" || s.empty()) return v;
        for (auto &t : mc::split(s, ',')) v.emplace_back(mc::parse_key<K>(t.substr(0, t.size() - 1)), t.back() == 'b');
        return v;
    }

    void apply(Dyn &d, Model &m, const Op &op) {
        if (op.kind == 0) { d.insert_or_assign(keys[op.key_idx], Vals<V>::get(op.val)); m[keys[op.key_idx]] = op.val; }
        else { d.erase(keys[op.key_idx]); m.erase(keys[op.key_idx]); }
    }

    void note_cap(uint64_t full_depth) {   // an exploration stopped at its state cap after completing every history of length <= full_depth
        run.sh->capped.fetch_or(2); run.add(cn.capped_expl);
        auto &c = run.sh->counters[cn.min_full_depth_p1]; uint64_t cur = c.load();
        while ((cur == 0 || cur > full_depth + 1) && !c.compare_exchange_weak(cur, full_depth + 1)) {}
    }
    size_t nonempty_levels(const Dyn &d) const { size_t c = 0; for (auto &l : d.levels) c += !l.empty(); return c; }

    // BFS from one initial state up to depth D (or until max_states distinct states were expanded)
    void bfs(const std::vector<std::pair<K, int>> &init, int D, size_t max_states, int prefix = 0) {
        std::string istr = init_str(init);
        std::vector<Op> ops;
        for (size_t k = 0; k < keys.size(); ++k) { ops.push_back({0, int(k), 0}); ops.push_back({0, int(k), 1}); }
        for (size_t k = 0; k < keys.size(); ++k) ops.push_back({1, int(k), 0});
        std::unordered_set<std::string> seen;
        std::vector<State> layer;
        {
            State s; s.obj = nullptr;
            run.set_case(hist_str(istr, {}) + " (construct)");
            try { s.obj = make_initial(init, s.model); }
            catch (const std::exception &e) { run.violation(hist_str(istr, {}), std::string("construction threw: ") + e.what()); return; }
            run.add(cn.initial_states);
            if (!check_state(*s.obj, s.model, hist_str(istr, {}))) { delete s.obj; return; }
            // non-initial start: a fixed prefix of round-robin inserts (checked step by step) brings the container into a deep state
            bool ok = true;
            for (int i = 0; i < prefix && ok; ++i) {
                Op op{0, int(i % keys.size()), int((i / keys.size()) % 2)};
                s.hist.push_back(op);
                run.set_case(hist_str(istr, s.hist));
                apply(*s.obj, s.model, op);
                run.add(cn.transitions);
                ok = check_state(*s.obj, s.model, hist_str(istr, s.hist));
            }
            if (!ok) { delete s.obj; return; }
            seen.insert(canon(*s.obj)); run.add(cn.states);
            layer.push_back(std::move(s));
        }
        bool sampled = false, cap_noted = false;
        for (int depth = 1; depth <= D && !layer.empty(); ++depth) {
            std::vector<State> next;
            for (auto &st : layer) {
                if (run.deadline_passed() || seen.size() >= max_states) { if (seen.size() >= max_states && !cap_noted) { note_cap(uint64_t(depth - 1)); cap_noted = true; } break; }
                for (auto &op : ops) {
                    State ns; ns.model = st.model; ns.hist = st.hist; ns.hist.push_back(op);
                    std::string cs = hist_str(istr, ns.hist);
                    run.set_case(cs);
                    ns.obj = new Dyn(*st.obj);
                    size_t before = nonempty_levels(*ns.obj); bool buffer_full = ns.obj->levels[0].size() >= ns.obj->buffer_max_size;
                    try { apply(*ns.obj, ns.model, op); }
                    catch (const std::exception &e) { run.violation(cs, std::string("update threw: ") + e.what()); delete ns.obj; continue; }
                    run.add(cn.transitions);
                    if (buffer_full && ns.obj->levels[0].empty()) { run.add(cn.merges); if (before >= 3) run.add(cn.deep_merges); }
                    // The oracle battery is a deterministic function of the object state, so it runs once per distinct canonical
                    // state; a transition into a known state only re-checks that the level contents still imply this history's model.
                    std::string c = canon(*ns.obj);
                    bool is_new = !seen.count(c);
                    bool ok = is_new ? check_state(*ns.obj, ns.model, cs) : implied_model_matches(*ns.obj, ns.model, cs);
                    if (ok && is_new) {
                        seen.insert(c);
                        run.add(cn.states);
                        if (ns.obj->levels.size() > 1 && nonempty_levels(*ns.obj) > (ns.obj->levels[0].empty() ? 0u : 1u)) run.add(cn.nontrivial);
                        if (nonempty_levels(*ns.obj) >= 3) run.add(cn.levels3);
                        if (!sampled && depth == D && ns.hist.size() >= 4 && ns.hist[0].key_idx != ns.hist[1].key_idx) { run.sample(cs + " -> " + c); sampled = true; }
                        next.push_back(std::move(ns));
                    } else { if (ok) run.add(cn.dedup_hits); delete ns.obj; }
                }
            }
            for (auto &st : layer) delete st.obj;
            layer = std::move(next);
            if (layer.size() > 500000) { if (!cap_noted && depth < D) { note_cap(uint64_t(depth)); cap_noted = true; } for (size_t i = 500000; i < layer.size(); ++i) delete layer[i].obj; layer.resize(500000); }   // memory bound of one frontier
            auto cur = run.sh->counters[cn.max_depth].load();
            while (cur < uint64_t(depth) && !run.sh->counters[cn.max_depth].compare_exchange_weak(cur, uint64_t(depth))) {}
        }
        for (auto &st : layer) delete st.obj;
    }

    // Round-structured exploration: a round assigns one action out of `actions` ({a, b, tombstone} or {a, tombstone}) to each of the
    // buffer_max_size+1 keys, in key order, so that every round flushes the buffer exactly once; BFS over rounds with canonical-state
    // deduplication reaches merge cascades (in particular merges into an existing deepest level, where tombstones are dropped) that
    // single-operation BFS only meets at depths it cannot afford. The oracle still runs after every single operation.
    void bfs_rounds(int R, int actions, size_t max_states) {
        std::vector<std::vector<Op>> macros;
        size_t m = keys.size(), total = 1;
        for (size_t i = 0; i < m; ++i) total *= size_t(actions);
        for (size_t code = 0; code < total; ++code) {
            std::vector<Op> mac; size_t c = code;
            for (size_t k = 0; k < m; ++k, c /= actions) {
                int a = int(c % actions);
                if (a == actions - 1) mac.push_back({1, int(k), 0}); else mac.push_back({0, int(k), a});
            }
            macros.push_back(mac);
        }
        std::unordered_set<std::string> seen_round, seen_micro;
        std::vector<State> layer;
        {
            State s; s.obj = make_initial({}, s.model);
            run.add(cn.initial_states);
            seen_round.insert(canon(*s.obj)); seen_micro.insert(canon(*s.obj)); run.add(cn.states);
            layer.push_back(std::move(s));
        }
        bool sampled = false, cap_noted = false;
        for (int round = 1; round <= R && !layer.empty(); ++round) {
            std::vector<State> next;
            for (auto &st : layer) {
                if (run.deadline_passed() || seen_micro.size() >= max_states) { if (seen_micro.size() >= max_states && !cap_noted) { note_cap(uint64_t(round - 1) * m); cap_noted = true; } break; }
                for (auto &mac : macros) {
                    State ns; ns.model = st.model; ns.hist = st.hist; ns.obj = new Dyn(*st.obj);
                    bool ok = true;
                    for (auto &op : mac) {
                        ns.hist.push_back(op);
                        std::string cs = hist_str("", ns.hist);
                        run.set_case(cs);
                        size_t before = nonempty_levels(*ns.obj); bool buffer_full = ns.obj->levels[0].size() >= ns.obj->buffer_max_size;
                        try { apply(*ns.obj, ns.model, op); }
                        catch (const std::exception &e) { run.violation(cs, std::string("update threw: ") + e.what()); ok = false; break; }
                        run.add(cn.transitions);
                        if (buffer_full && ns.obj->levels[0].empty()) { run.add(cn.merges); if (before >= 3) run.add(cn.deep_merges); }
                        std::string c = canon(*ns.obj);
                        if (seen_micro.insert(c).second) {
                            run.add(cn.states);
                            if (nonempty_levels(*ns.obj) > (ns.obj->levels[0].empty() ? 0u : 1u)) run.add(cn.nontrivial);
                            if (nonempty_levels(*ns.obj) >= 3) run.add(cn.levels3);
                            ok = check_state(*ns.obj, ns.model, cs);
                        } else { run.add(cn.dedup_hits); ok = implied_model_matches(*ns.obj, ns.model, cs); }
                        if (!ok) break;
                    }
                    if (ok && seen_round.insert(canon(*ns.obj)).second) {
                        if (!sampled && round == R) { run.sample(hist_str("", ns.hist) + " -> " + canon(*ns.obj)); sampled = true; }
                        next.push_back(std::move(ns));
                    } else delete ns.obj;
                }
            }
            for (auto &st : layer) delete st.obj;
            layer = std::move(next);
            uint64_t depth = uint64_t(round) * m;
            auto cur = run.sh->counters[cn.max_depth].load();
            while (cur < depth && !run.sh->counters[cn.max_depth].compare_exchange_weak(cur, depth)) {}
        }
        for (auto &st : layer) delete st.obj;
    }

    // Size sweep: bulk-load of n distinct keys followed by F inserts of fresh distinct keys (no branching): level sizes hit every
    // "exact fit" of a buffer flush into the free room of a level, which small key alphabets cannot reach.
    void sweep(int max_n, int F, int placement) {
        for (int n = 0; n <= max_n && !run.deadline_passed(); ++n) {
            std::vector<std::pair<K, int>> init;
            for (int i = 0; i < n; ++i) init.emplace_back(K(1000 + 4 * i), i % 2);
            std::vector<K> saved = keys;
            keys.clear();
            for (int f = 0; f < F; ++f) keys.push_back(placement == 0 ? K(1002 + 4 * f) : placement == 1 ? K(10 + f) : K(100000 + 3 * f));   // interleaved / below / above
            queries.clear(); { std::set<K> q; for (K k : keys) { q.insert(k); q.insert(K(k + 1)); } for (auto &p : init) q.insert(p.first); q.insert(std::numeric_limits<K>::min()); queries.assign(q.begin(), q.end()); if (queries.size() > 40) queries.resize(40); }
            State s; s.obj = nullptr;
            std::string istr = "bulk" + std::to_string(n);
            run.set_case(cfg_str + " sweep n=" + std::to_string(n) + " placement=" + std::to_string(placement) + " (construct)");
            try { s.obj = make_initial(init, s.model); } catch (const std::exception &e) { run.violation(cfg_str + " sweep n=" + std::to_string(n), std::string("construction threw: ") + e.what()); keys = saved; continue; }
            run.add(cn.initial_states); run.add(cn.states);
            bool ok = check_state(*s.obj, s.model, cfg_str + " sweep n=" + std::to_string(n) + " placement=" + std::to_string(placement) + " step=0");
            for (int f = 0; f < F && ok; ++f) {
                std::string cs = cfg_str + " sweep n=" + std::to_string(n) + " placement=" + std::to_string(placement) + " step=" + std::to_string(f + 1);
                run.set_case(cs);
                bool buffer_full = s.obj->levels[0].size() >= s.obj->buffer_max_size; size_t before = nonempty_levels(*s.obj);
                apply(*s.obj, s.model, Op{0, f, f % 2});
                run.add(cn.transitions); run.add(cn.states);
                if (buffer_full && s.obj->levels[0].empty()) { run.add(cn.merges); if (before >= 3) run.add(cn.deep_merges); }
                if (nonempty_levels(*s.obj) >= 3) run.add(cn.levels3);
                run.add(cn.nontrivial);
                ok = check_state(*s.obj, s.model, cs);
            }
            if (n == 11 && placement == 0) run.sample(cfg_str + " sweep n=11 placement=0 steps=" + std::to_string(F) + " -> " + canon(*s.obj).substr(0, 200));
            delete s.obj;
            keys = saved;
        }
    }
    // Large scripted family: a bulk-load of N irregularly spaced keys (several segments per indexed level, models that use their
    // error band) into a level that keeps room, then scripts whose flushes merge INTO that level: k erases of stored keys and k
    // inserts of fresh neighbours with 2k = buffer capacity + 1 (the merged level keeps its size while its contents shift), the same
    // interleaved, and overwrites followed by erases; a second round re-inserts the erased keys and erases the fresh ones. The oracle
    // battery runs after every operation. `upto` (replay) stops after that many operations.
    static std::vector<K> irregular_keys(int N) {
        std::vector<K> v; uint64_t cur = 1000;
        for (int i = 0; i < N; ++i) { cur = cur + 2 + ((uint32_t(i) * 2654435761u >> 7) % 9) * ((i % 17 == 0) ? 40 : 1); v.push_back(K(cur)); }
        if (cur + 8 >= uint64_t(std::numeric_limits<K>::max())) v.clear();   // the member does not exist for this key type
        return v;
    }
    void large(int N, int variant, int upto = -1) {
        auto base_keys = irregular_keys(N);
        if (base_keys.empty()) return;
        std::vector<std::pair<K, int>> init;
        for (int i = 0; i < N; ++i) init.emplace_back(base_keys[i], i % 2);
        size_t B = 0, pw = 1; for (int j = 0; j <= cfg.buffer_level; ++j) { B += pw; pw *= cfg.base; }
        int k = int((B + 1) / 2);
        if (k > N) return;
        keys.clear();
        for (int i = 0; i < k; ++i) keys.push_back(base_keys[size_t(i) * size_t(N) / size_t(k) + (variant % 2)]);      // erase targets
        for (int i = 0; i < k; ++i) keys.push_back(K(keys[i] + 1));                                                  // fresh neighbours (gaps are >= 2)
        { std::set<K> q; for (size_t i = 0; i < keys.size(); i += std::max<size_t>(1, keys.size() / 16)) { q.insert(keys[i]); q.insert(K(keys[i] + 1)); q.insert(K(keys[i] - 1)); }
          for (int i = 0; i < N; i += std::max(1, N / 12)) q.insert(base_keys[i]); q.insert(std::numeric_limits<K>::min()); q.insert(K(base_keys.back() + 5)); queries.assign(q.begin(), q.end()); }
        std::vector<Op> script;
        if (variant / 2 == 0) { for (int i = 0; i < k; ++i) script.push_back({1, i, 0}); for (int i = 0; i < k; ++i) script.push_back({0, k + i, i % 2}); }
        else if (variant / 2 == 1) { for (int i = 0; i < k; ++i) { script.push_back({1, i, 0}); script.push_back({0, k + i, i % 2}); } }
        else { for (int i = 0; i < k; ++i) script.push_back({0, i, 1 - i % 2}); for (int i = 0; i < k; ++i) script.push_back({1, i, 0}); }
        size_t first_round = script.size();
        for (size_t i = 0; i < first_round; ++i) { Op o = script[i]; script.push_back(o.kind == 1 ? Op{0, o.key_idx, 1} : Op{1, o.key_idx, 0}); }   // second round: the inverse operations
        script.push_back({0, 0, 0}); script.push_back({1, k, 0});
        std::string id = cfg_str + " large N=" + std::to_string(N) + " variant=" + std::to_string(variant);
        State s; s.obj = nullptr;
        run.set_case(id + " upto=0 (construct)");
        try { s.obj = make_initial(init, s.model); } catch (const std::exception &e) { run.violation(id + " upto=0", std::string("construction threw: ") + e.what()); return; }
        run.add(cn.initial_states); run.add(cn.states);
        bool ok = check_state(*s.obj, s.model, id + " upto=0");
        for (size_t i = 0; i < script.size() && ok && (upto < 0 || int(i) < upto) && !run.deadline_passed(); ++i) {
            std::string cs = id + " upto=" + std::to_string(i + 1);
            run.set_case(cs);
            bool buffer_full = s.obj->levels[0].size() >= s.obj->buffer_max_size; size_t before = nonempty_levels(*s.obj);
            apply(*s.obj, s.model, script[i]);
            run.add(cn.transitions); run.add(cn.states); run.add(cn.nontrivial);
            if (buffer_full && s.obj->levels[0].empty()) { run.add(cn.merges); if (before >= 3) run.add(cn.deep_merges); }
            ok = check_state(*s.obj, s.model, cs);
        }
        if (variant == 0) run.sample(id + " upto=" + std::to_string(script.size()) + " -> used_levels=" + std::to_string(int(s.obj->used_levels)) + " size=" + std::to_string(s.obj->size()));
        delete s.obj;
    }

    void replay_sweep(const std::map<std::string, std::string> &m) {
        // the case string is "… sweep n=<n> placement=<p> step=<s>": re-run that n completely
        int n = atoi(m.at("n").c_str()), pl = atoi(m.at("placement").c_str());
        int F = m.count("step") ? atoi(m.at("step").c_str()) : 0;
        std::vector<std::pair<K, int>> init; for (int i = 0; i < n; ++i) init.emplace_back(K(1000 + 4 * i), i % 2);
        keys.clear(); for (int f = 0; f < std::max(F, 1); ++f) keys.push_back(pl == 0 ? K(1002 + 4 * f) : pl == 1 ? K(10 + f) : K(100000 + 3 * f));
        queries.clear(); { std::set<K> q; for (K k : keys) { q.insert(k); q.insert(K(k + 1)); } for (auto &p : init) q.insert(p.first); q.insert(std::numeric_limits<K>::min()); queries.assign(q.begin(), q.end()); if (queries.size() > 40) queries.resize(40); }
        Model model; Dyn *d = make_initial(init, model);
        bool ok = check_state(*d, model, cfg_str + " sweep n=" + std::to_string(n) + " placement=" + std::to_string(pl) + " step=0");
        for (int f = 0; f < F && ok; ++f) { apply(*d, model, Op{0, f, f % 2}); printf("  after step %d: %s\n", f + 1, canon(*d).substr(0, 300).c_str()); ok = check_state(*d, model, cfg_str + " sweep n=" + std::to_string(n) + " placement=" + std::to_string(pl) + " step=" + std::to_string(f + 1)); }
        delete d;
    }

    void replay(const std::map<std::string, std::string> &m) {
        if (m.count("placement")) { replay_sweep(m); return; }
        if (m.count("variant")) { large(atoi(m.at("N").c_str()), atoi(m.at("variant").c_str()), m.count("upto") ? atoi(m.at("upto").c_str()) : -1); return; }
        auto init = parse_init(m.at("init"));
        Model model;
        Dyn *d = make_initial(init, model);
        std::vector<Op> hist;
        std::string istr = init_str(init);
        printf("replay: %s\n  initial %s\n", hist_str(istr, {}).c_str(), canon(*d).c_str());
        bool ok = check_state(*d, model, hist_str(istr, {}));
        if (m.at("ops") != "-")
            for (auto &t : mc::split(m.at("ops"), ',')) {
                Op op; op.kind = t[0] == 'I' ? 0 : 1; op.key_idx = atoi(t.c_str() + 1); op.val = t.back() == 'b';
                hist.push_back(op);
                apply(*d, model, op);
                printf("  after %s: %s\n", t.c_str(), canon(*d).c_str());
                ok = check_state(*d, model, hist_str(istr, hist)) && ok;
            }
        delete d;
    }
};

// ---- configuration table ---------------------------------------------------------------------------------------------------
struct TypeEntry {
    const char *name; int tier;
    void (*run_bfs)(Run &, Cn &, int prop, DynCfg, int keyset, int init_id, int D, size_t max_states, int prefix);
    void (*run_rounds)(Run &, Cn &, int prop, DynCfg, int keyset, int R, int actions, size_t max_states);
    void (*run_sweep)(Run &, Cn &, int prop, DynCfg, int max_n, int F, int placement);
    void (*run_large)(Run &, Cn &, int prop, DynCfg, int N, int variant);
    void (*replay)(Run &, Cn &, int prop, const std::map<std::string, std::string> &);
    int (*num_inits)(int keyset);
};

template<typename K> std::vector<K> keyset(int id) {
    K lo = std::numeric_limits<K>::min(), hi = std::numeric_limits<K>::max() - 1;
    switch (id) {
        case 0: return {K(10), K(11), K(13), K(20)};
        case 1: return {K(10), K(11), K(13), K(20), K(21)};
        case 2: return {lo, K(lo + 1), K(100), K(hi - 1), hi};
        case 3: return {K(10), K(11), K(13), K(20), K(21), K(30), K(31)};                       // 5 keys + fillers, deep starts
        case 4: return {K(10), K(11), K(13), K(20), K(21), K(30)};                               // buffer of 5 (base 4, buffer_level 1) + 1
        case 5: return {K(10), K(11), K(13), K(20), K(21), K(30), K(31), K(33)};                 // buffer of 7 (base 2, buffer_level 2) + 1
        default: return {K(5), K(6)};
    }
}

// initial states: id 0 empty; then every bulk-load of 1..3 sorted pairs (repeated keys allowed, value of later duplicates differs) over
// the first four keys of the key set; the last two ids are bulk-loads of 9 and 12 pairs that land two levels below the buffer.
template<typename K> std::vector<std::vector<std::pair<K, int>>> initial_states(int ks_id) {
    auto ks = keyset<K>(ks_id);
    std::vector<std::vector<std::pair<K, int>>> out;
    out.push_back({});
    int U = std::min<int>(4, int(ks.size()));
    for (int len = 1; len <= 3; ++len)
        for (int f = 0; f < U; ++f)
            mc::for_each_multiset(U, len, f, [&](const std::vector<int> &idx) {
                std::vector<std::pair<K, int>> v;
                for (int i = 0; i < len; ++i) v.emplace_back(ks[idx[i]], (i > 0 && idx[i] == idx[i - 1]) ? 1 : 0);
                out.push_back(v);
                return true;
            });
    for (int n : {9, 12}) {
        std::vector<std::pair<K, int>> v;
        K base = std::min<K>(ks[0], 10);
        std::set<K> used;
        for (K k : ks) used.insert(k);
        std::vector<K> all(ks.begin(), ks.end());
        for (K c = base; int(all.size()) < n; c = K(c + 3)) if (!used.count(c)) { all.push_back(c); used.insert(c); }
        std::sort(all.begin(), all.end());
        for (size_t i = 0; i < all.size(); ++i) v.emplace_back(all[i], int(i % 2));
        out.push_back(v);
    }
    return out;
}

template<typename K, typename V, typename PGMType>
struct Thunk {
    static const char *&name() { static const char *n = ""; return n; }
    static void run_bfs(Run &r, Cn &c, int prop, DynCfg cfg, int ks_id, int init_id, int D, size_t max_states, int prefix) {
        Explorer<K, V, PGMType> ex(r, c, prop, name(), cfg, keyset<K>(ks_id));
        auto inits = initial_states<K>(ks_id);
        ex.bfs(inits[init_id], D, max_states, prefix);
    }
    static void run_sweep(Run &r, Cn &c, int prop, DynCfg cfg, int max_n, int F, int placement) {
        Explorer<K, V, PGMType> ex(r, c, prop, name(), cfg, keyset<K>(0));
        ex.sweep(max_n, F, placement);
    }
    static void run_large(Run &r, Cn &c, int prop, DynCfg cfg, int N, int variant) {
        Explorer<K, V, PGMType> ex(r, c, prop, name(), cfg, keyset<K>(0));
        ex.large(N, variant);
    }
    static void run_rounds(Run &r, Cn &c, int prop, DynCfg cfg, int ks_id, int R, int actions, size_t max_states) {
        Explorer<K, V, PGMType> ex(r, c, prop, name(), cfg, keyset<K>(ks_id));
        ex.bfs_rounds(R, actions, max_states);
    }
    static void replay(Run &r, Cn &c, int prop, const std::map<std::string, std::string> &m) {
        DynCfg cfg{uint8_t(atoi(m.at("base").c_str())), uint8_t(atoi(m.at("buf").c_str())), uint8_t(atoi(m.at("idx").c_str()))};
        Explorer<K, V, PGMType> ex(r, c, prop, name(), cfg, mc::parse_keys<K>(m.at("keys")));
        ex.replay(m);
    }
    static int num_inits(int ks_id) { return int(initial_states<K>(ks_id).size()); }
};
#define TYPE(NAME, TIER, K, V, ...) [] { Thunk<K, V, __VA_ARGS__>::name() = NAME; return TypeEntry{NAME, TIER, &Thunk<K, V, __VA_ARGS__>::run_bfs, &Thunk<K, V, __VA_ARGS__>::run_rounds, &Thunk<K, V, __VA_ARGS__>::run_sweep, &Thunk<K, V, __VA_ARGS__>::run_large, &Thunk<K, V, __VA_ARGS__>::replay, &Thunk<K, V, __VA_ARGS__>::num_inits}; }()

static std::vector<TypeEntry> types() {
    return {
        TYPE("u32/u32/pgm<1,1>", 0, uint32_t, uint32_t, pgm::PGMIndex<uint32_t, 1, 1>),
        TYPE("i32/ptr/pgm<2,0>", 0, int32_t, uint32_t *, pgm::PGMIndex<int32_t, 2, 0>),
        TYPE("u32/str/pgm<16,4>", 0, uint32_t, std::string, pgm::PGMIndex<uint32_t, 16>),
        TYPE("u64/u64/pgm<1,2>", 1, uint64_t, uint64_t, pgm::PGMIndex<uint64_t, 1, 2>),
        TYPE("i64/u32/pgm<4,4>", 1, int64_t, uint32_t, pgm::PGMIndex<int64_t, 4, 4>),
        TYPE("u32/u32/pgm<1,4>", 2, uint32_t, uint32_t, pgm::PGMIndex<uint32_t, 1, 4>),
        TYPE("u32/u64/pgm<1,1>", 3, uint32_t, uint64_t, pgm::PGMIndex<uint32_t, 1, 1>),
        TYPE("i32/i32/pgm<1,1>", 3, int32_t, int32_t, pgm::PGMIndex<int32_t, 1, 1>),
        TYPE("u16/u8/pgm<1,1>", 3, uint16_t, uint8_t, pgm::PGMIndex<uint16_t, 1, 1>),      // tier 3: one BFS from empty, one round-structured search, the large scripted family
        TYPE("i64/f64/pgm<2,1>", 3, int64_t, double, pgm::PGMIndex<int64_t, 2, 1>),
        TYPE("u32/f32/pgm<1,1>", 3, uint32_t, float, pgm::PGMIndex<uint32_t, 1, 1>),   // mapped values +inf / -inf   // tier 2: large scripted family only (Epsilon < EpsilonRecursive)
    };
}

struct Task { int type, keyset, init, D; DynCfg cfg; size_t max_states; int prefix = 0; int rounds = 0, actions = 0; int sweep_n = 0, sweep_f = 0, placement = 0; int large_n = 0, variant = 0; };

int main(int argc, char **argv) {
    auto opt = mc::parse_args(argc, argv);
    int prop = opt.property.size() == 3 ? atoi(opt.property.c_str() + 1) : 0;
    if (prop != 5 && prop != 6 && prop != 15 && prop != 17) { fprintf(stderr, "usage: dynamic --prop C05|C06|C15 [--tier ..] [--replay f]\n"); return 2; }
    bool thorough = opt.tier == "thorough";
    Run run(opt, "dynamic");
    Cn cn(run);
    auto ty = types();

    if (!opt.replay.empty()) {
        auto m = mc::parse_case(mc::json_field(mc::read_file(opt.replay), "case"));
        run.opt.write_evidence = false; run.worker_id = 0;
        for (auto &t : ty) if (m["type"] == t.name) {
            t.replay(run, cn, prop, m);
            auto v = run.sh->violations.load();
            printf("replay verdict: %s\n", v ? "VIOLATION reproduced" : "no violation");
            return v ? 1 : 0;
        }
        fprintf(stderr, "unknown type %s\n", m["type"].c_str()); return 2;
    }

    // (base, buffer_level, index_level): buffer of 3 entries and levels of 4/8/16 for base 2, so short histories cascade
    std::vector<DynCfg> cfgs_q = {{2, 1, 2}, {2, 1, 3}, {2, 2, 3}, {4, 1, 2}, {2, 1, 0}};
    std::vector<DynCfg> cfgs_t = {{8, 1, 2}, {2, 3, 4}, {16, 1, 2}, {128, 1, 2}, {4, 2, 3}};
    int Dq = 8, Dt = 10;
#ifdef VERIF_ASAN
    Dq = 4; Dt = 6;
#endif
    if (opt.extra.count("D")) Dq = Dt = atoi(opt.extra["D"].c_str());
    std::vector<Task> tasks;
    auto add_cfg = [&](DynCfg c, int tindex, int D, bool all_inits, int ks) {
        int ni = ty[tindex].num_inits(ks);
        for (int i = 0; i < ni; ++i) {
            bool deep = i >= ni - 2;
            if (!all_inits && i != 0 && !deep) continue;
            tasks.push_back(Task{tindex, ks, i, deep ? std::max(3, D - 3) : (i == 0 ? D : D - 2), c, thorough ? size_t(1500000) : size_t(400000)});
        }
    };
    for (size_t t = 0; t < ty.size(); ++t) {
        if (ty[t].tier == 1 && !thorough) continue;
        {   // large scripted family: (cfg, N) so that the bulk-loaded level keeps room for the flushes
            struct LargeSpec { DynCfg cfg; int N; };
            std::vector<LargeSpec> ls = {{{8, 2, 3}, 300}, {{16, 1, 2}, 200}, {{8, 1, 2}, 45}, {{4, 2, 3}, 40}, {{8, 2, 0}, 300}};
            ls.push_back({{2, 2, 3}, 9000});   // base 2: the bulk-loaded level is number 14, flushes cascade through many small levels below it
            if (thorough) { ls.push_back({{16, 2, 3}, 3000}); ls.push_back({{8, 2, 3}, 420}); ls.push_back({{32, 1, 2}, 900}); ls.push_back({{2, 1, 3}, 140000}); }
#ifdef VERIF_ASAN
            if (!thorough) ls.resize(3);
#endif
            for (auto &l : ls) for (int v = 0; v < 6; ++v) { Task tk{int(t), 0, 0, 97, l.cfg, 0}; tk.large_n = l.N; tk.variant = v; tasks.push_back(tk); }
        }
        if (ty[t].tier == 2) continue;
        // buffers of 2^15 .. 2^17 entries (buffer_level 14..16 with base 2): the number of the pseudo level of end() (levels.size() - 1)
        // meets the numbers of real levels; every small bulk-load, depth 4
        if (ty[t].tier == 0 || thorough) for (uint8_t bl : {uint8_t(14), uint8_t(15), uint8_t(16)}) {
            int ni = ty[t].num_inits(0);
            for (int i = 0; i < ni; i += (thorough ? 1 : 3)) tasks.push_back(Task{int(t), 0, i, thorough ? 5 : 4, DynCfg{2, bl, 0}, size_t(200000)});
        }
        if (ty[t].tier == 3) {   // further mapped-value types (8-bit values next to the reserved one, floating values): a thinner slice
            tasks.push_back(Task{int(t), 0, 0, thorough ? Dt - 2 : Dq - 2, DynCfg{2, 1, 2}, thorough ? size_t(1500000) : size_t(400000)});
            tasks.push_back(Task{int(t), 0, 0, thorough ? Dt - 3 : Dq - 3, DynCfg{4, 1, 2}, thorough ? size_t(1500000) : size_t(400000)});
            { Task tk{int(t), 0, 0, 99, DynCfg{2, 1, 2}, thorough ? size_t(2000000) : size_t(600000)}; tk.rounds = thorough ? 5 : 3; tk.actions = 3; tasks.push_back(tk); }
            continue;
        }
        for (size_t c = 0; c < cfgs_q.size(); ++c) {
            add_cfg(cfgs_q[c], int(t), thorough ? Dt : Dq, c == 0 || thorough, 0);      // 4 colliding keys
            if (c <= 1 || thorough) add_cfg(cfgs_q[c], int(t), (thorough ? Dt : Dq) - 1, false, 1);   // 5 keys
            if (c == 0) add_cfg(cfgs_q[c], int(t), thorough ? Dt - 2 : Dq - 2, false, 2);             // extremes of the key type
            if (c == 0 || thorough) add_cfg(cfgs_q[c], int(t), thorough ? 7 : 5, false, 3);           // deep starts with 7 keys
            if (c <= 2 || thorough)                                                                   // non-initial starts after 11 / 15 / 19 inserts
                for (int pre : {11, 15, 19}) for (int ks : {0, 1}) {
                    Task tk{int(t), ks, 0, (thorough ? Dt : Dq) - 2, cfgs_q[c], thorough ? size_t(1500000) : size_t(400000)}; tk.prefix = pre; tasks.push_back(tk);
                }
        }
        // starts with a non-empty last level that still has room (base 4: the level below the buffer holds 6 or 12 of its 16 slots), so
        // that the next flush merges INTO the last level with permanent deletion while the buffer holds keys it already owns
        for (int pre : {6, 12}) {
            Task tk{int(t), 4, 0, thorough ? 8 : 6, DynCfg{4, 1, 2}, thorough ? size_t(1500000) : size_t(400000)}; tk.prefix = pre; tasks.push_back(tk);
        }
        if (thorough) for (auto &c : cfgs_t) add_cfg(c, int(t), Dt - 1, false, 0);
        // round-structured exploration: (cfg, key set with buffer_max_size+1 keys, rounds, actions per key)
        struct RoundSpec { DynCfg cfg; int ks, R, actions; };
        bool asan_build = false;
#ifdef VERIF_ASAN
        asan_build = true;
#endif
        std::vector<RoundSpec> rs = {{{2, 1, 2}, 0, thorough ? 7 : 5, 3}, {{4, 1, 2}, 4, thorough ? 4 : 3, 2}, {{4, 1, 2}, 4, 2, 3}, {{2, 2, 3}, 5, thorough ? 3 : 2, 2}, {{4, 1, 3}, 4, thorough ? 4 : 3, 2}};
        if (thorough) { rs.push_back({{2, 1, 3}, 0, 7, 3}); rs.push_back({{2, 2, 3}, 5, 2, 3}); }
        if (asan_build) rs = {{{2, 1, 2}, 0, thorough ? 5 : 3, 3}, {{4, 1, 2}, 4, thorough ? 3 : 2, 2}};   // every copy is dozens of allocations under ASan
        // size sweeps: bulk-load of 0..max_n distinct keys, then F fresh distinct inserts, three placements of the fresh keys
        if (!asan_build || thorough)
            for (auto &c : std::vector<DynCfg>{{2, 1, 2}, {4, 1, 2}, {2, 2, 3}, {8, 1, 2}, {4, 1, 0}})
                for (int pl = 0; pl < 3; ++pl) { Task tk{int(t), 0, 0, 98, c, 0}; tk.sweep_n = thorough ? 140 : 70; tk.sweep_f = thorough ? 80 : 40; tk.placement = pl; tasks.push_back(tk); }
        for (auto &r : rs) { Task tk{int(t), r.ks, 0, 99, r.cfg, thorough ? size_t(2000000) : size_t(600000)}; tk.rounds = r.R; tk.actions = r.actions; tasks.push_back(tk); }
    }
    // largest tasks first
    std::stable_sort(tasks.begin(), tasks.end(), [](const Task &a, const Task &b) { return a.D > b.D; });
    run.run_tasks(tasks.size(), [&](uint64_t i) {
        auto &t = tasks[i];
        if (run.deadline_passed()) return;
        if (t.large_n) ty[t.type].run_large(run, cn, prop, t.cfg, t.large_n, t.variant);
        else if (t.sweep_n) ty[t.type].run_sweep(run, cn, prop, t.cfg, t.sweep_n, t.sweep_f, t.placement);
        else if (t.rounds) ty[t.type].run_rounds(run, cn, prop, t.cfg, t.keyset, t.rounds, t.actions, t.max_states);
        else ty[t.type].run_bfs(run, cn, prop, t.cfg, t.keyset, t.init, t.D, t.max_states, t.prefix);
    });

    mc::Run::EvidenceExtra ev;
    ev.states_counter = "distinct_canonical_states"; ev.transitions_counter = "transitions_executed"; ev.nontrivial_counter = "states_with_data_below_the_buffer";
    ev.rule = "(a) breadth-first search over all histories of insert_or_assign(k,v)/erase(k), k from a key set of 4-7 colliding keys (adjacent keys, gaps, the extremes of the key type), v from 2 values, on the real DynamicPGMIndex copied per transition; "
              "initial states: empty, every bulk-load of 1..3 sorted pairs with repeated keys, bulk-loads of 9 and 12 pairs landing two levels below the buffer, and non-initial starts reached by a fixed prefix of 11/15/19 (base 2) or 6/12 (base 4, leaving a non-empty last level with room) round-robin inserts (so that the next merges cascade through three and four levels), plus round-structured search (one action out of {a,b,tombstone} per key for buffer_max_size+1 keys per round, so that every round flushes the buffer once; 2-7 rounds) which reaches merges into an existing deepest level where tombstones are dropped, plus size sweeps (bulk-load of 0..70 distinct keys followed by 40 inserts of fresh distinct keys, three placements) which hit every exact fit of a flush into the free room of a level; configurations (base,buffer_level,index_level) with a 3-entry buffer and 4/8/16-entry levels so that depth-" + std::to_string(thorough ? Dt : Dq) +
              " histories cascade through three levels and small levels own a PGM-index; key/value/index types arithmetic (8-bit values next to the reserved one, floating values), pointer and std::string values. A state is a distinct canonical form (used_levels + per-level list of key/value-or-tombstone); after every transition the property's oracle runs against std::map" +
              (prop == 5 ? " (find, count, lower_bound for every alphabet key and its neighbours)" : prop == 6 ? " (iteration from begin() with ++it and with it++ and from every lower_bound to end(), range() for every lo<=hi of the query alphabet, size(), empty())" : " (sortedness, capacities, empty levels beyond used_levels, per-level index built over exactly the level's keys and answering the search contract, emptied levels' indexes reset)") +
              ". (b) large scripted family: bulk-load of 40..300 (thorough: up to 3000) irregularly spaced keys into a level that keeps room, then six scripts of erases of stored keys and inserts of fresh neighbours sized so that every flush merges into that level (size-preserving, interleaved, overwrite-then-erase; second round with the inverse operations), all oracles after every operation, also with a PGMIndex<.,1,4> (Epsilon < EpsilonRecursive) inside the levels. Non-trivial: the state holds data in a level below the buffer.";
    ev.bounds = "depth " + std::to_string(thorough ? Dt : Dq) + " from empty (4 keys), depth-1 (5 keys), depth-2 from small bulk-loads, deep starts depth " + std::to_string(thorough ? 7 : 5) + "; " + std::to_string(tasks.size()) + " (type,config,initial state) explorations";
    if (uint64_t nc = run.sh->counters[cn.capped_expl].load())
        ev.bounds += "; " + std::to_string(nc) + " of them stopped at their state cap before the target depth (the shallowest of these had completed every history up to length " + std::to_string(run.sh->counters[cn.min_full_depth_p1].load() - 1) + " beyond its start state); the others ran to their target depth";
    ev.assumptions = {"equal canonical forms have equal futures: the per-level indexes are a function of the level contents (checked by C15) and vector capacities are unobservable",
                      "the reference model is std::map with the same operation applied", "private members read with -fno-access-control"};
    return run.finish(ev);
}
