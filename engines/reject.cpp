// Engine `reject`: exhaustive enumeration of precondition violations at every position where they can occur (C20).
// Oracle: the documented exception (or NULL from the C interface) is raised, valid neighbours of each input are accepted,
// and a rejected insert leaves the container exactly as it was.
#include "../mc/common.hpp"
#include "keyspace.hpp"
#include "pgm/pgm_index.hpp"
#include "pgm/pgm_index_variants.hpp"
#include "pgm/pgm_index_dynamic.hpp"
#include "cpgm.h"
#include <map>

static int g_chunks = 1;
extern "C" int omp_get_num_procs(void) noexcept { return g_chunks; }
extern "C" int omp_get_max_threads(void) noexcept { return g_chunks; }
extern "C" int omp_get_thread_num(void) noexcept { return 0; }      // pragmas are ignored in this build: every parallel region runs as a team of one
extern "C" int omp_get_num_threads(void) noexcept { return 1; }
extern "C" int omp_in_parallel(void) noexcept { return 0; }
extern "C" void omp_set_num_threads(int) noexcept {}
extern "C" int omp_get_thread_limit(void) noexcept { return 1; }

#ifdef VERIF_ASAN
extern "C" void __asan_on_error() {
    if (mc::g_run) mc::g_run->violation(mc::g_run->worker_id >= 0 ? mc::g_run->sh->slot[mc::g_run->worker_id] : "(parent)", "AddressSanitizer reported an invalid memory access");
}
extern "C" const char *__asan_default_options() { return "halt_on_error=0:detect_leaks=0:print_summary=0"; }
#endif

using mc::Run;

struct Cn {
    int invalid, valid, cases, rejected_inserts, states_compared, bases, bulk, ranges, multidim, builder;
    explicit Cn(Run &r) {
        invalid = r.counter("invalid_inputs_checked_to_be_rejected"); valid = r.counter("valid_neighbour_inputs_checked_to_be_accepted"); cases = r.counter("distinct_cases");
        rejected_inserts = r.counter("rejected_inserts_at_history_points"); states_compared = r.counter("container_states_compared_after_rejection"); bases = r.counter("dynamic_base_values");
        bulk = r.counter("bulk_load_ranges"); ranges = r.counter("range_argument_pairs"); multidim = r.counter("multidimensional_point_sets"); builder = r.counter("builder_add_point_sequences");
    }
};

static std::string g_dir;

enum Outcome { ACCEPTED, INVALID_ARGUMENT, LOGIC_ERROR, OTHER_EXCEPTION };
template<typename F> Outcome outcome_of(F &&f, std::string *what = nullptr) {
    try { f(); return ACCEPTED; }
    catch (const std::invalid_argument &e) { if (what) *what = e.what(); return INVALID_ARGUMENT; }
    catch (const std::logic_error &e) { if (what) *what = e.what(); return LOGIC_ERROR; }
    catch (const std::exception &e) { if (what) *what = e.what(); return OTHER_EXCEPTION; }
}
static const char *oname(Outcome o) { return o == ACCEPTED ? "accepted" : o == INVALID_ARGUMENT ? "std::invalid_argument" : o == LOGIC_ERROR ? "std::logic_error" : "another exception"; }

struct Ctx { Run &run; Cn &cn; };

// ---- 1. reserved value in the data of the static indexes ----------------------------------------------------------------------
template<typename K, typename Make>
void reserved_static(Ctx &c, const char *cls, int palette_id, int len, int first, Make make) {
    auto pal = ks::palette<K>(palette_id);
    std::vector<K> data(len);
    mc::for_each_multiset(int(pal.size()), len, first, [&](const std::vector<int> &idx) {
        for (int i = 0; i < len; ++i) data[i] = pal[idx[i]];
        c.run.add(c.cn.cases);
        std::string base = std::string("part=reserved class=") + cls + " data=" + mc::keys_str(data);
        c.run.set_case(base);
        std::string what;
        Outcome o = outcome_of([&] { make(data); }, &what);
        c.run.add(c.cn.valid);
        if (o != ACCEPTED) c.run.violation(base, std::string("valid data was rejected with ") + oname(o) + ": " + what);
        for (int copies = 1; copies <= 3; ++copies) {
            std::vector<K> bad = data;
            for (int j = 0; j < copies; ++j) bad.push_back(ks::reserved<K>());
            std::string cs = std::string("part=reserved class=") + cls + " data=" + mc::keys_str(data) + " reserved_copies=" + std::to_string(copies);
            c.run.set_case(cs);
            c.run.add(c.cn.invalid);
            Outcome ob = outcome_of([&] { make(bad); }, &what);
            if (ob != INVALID_ARGUMENT) c.run.violation(cs, std::string("data containing the reserved value: expected std::invalid_argument, got ") + oname(ob));
        }
        return !c.run.deadline_passed();
    });
}

template<typename T, typename Create, typename Destroy>
void reserved_c(Ctx &c, const char *type, int palette_id, int len, int first, Create create, Destroy destroy) {
    auto pal = ks::palette<T>(palette_id);
    std::vector<T> data(len);
    mc::for_each_multiset(int(pal.size()), len, first, [&](const std::vector<int> &idx) {
        for (int i = 0; i < len; ++i) data[i] = pal[idx[i]];
        c.run.add(c.cn.cases);
        for (size_t eps : {size_t(1), size_t(64)}) {
            std::string base = std::string("part=reserved class=c_") + type + " eps=" + std::to_string(eps) + " data=" + mc::keys_str(data);
            c.run.set_case(base);
            c.run.add(c.cn.valid);
            auto *p = create(data.data(), data.size(), eps);
            if (!p) c.run.violation(base, "create returned NULL for valid data"); else destroy(p);
            for (int copies = 1; copies <= 2; ++copies) {
                std::vector<T> bad = data; for (int j = 0; j < copies; ++j) bad.push_back(std::numeric_limits<T>::max());
                c.run.set_case(base + " reserved_copies=" + std::to_string(copies));
                c.run.add(c.cn.invalid);
                auto *q = create(bad.data(), bad.size(), eps);
                if (q) { c.run.violation(base + " reserved_copies=" + std::to_string(copies), "create did not return NULL for data containing the reserved value"); destroy(q); }
            }
        }
        return !c.run.deadline_passed();
    });
}

// the same for inputs large enough to be segmented in chunks (n around 2^15, 1..20 construction threads)
template<typename K, typename Make>
void reserved_large(Ctx &c, const char *cls, Make make) {
    for (size_t n : {size_t(32767), size_t(32768), size_t(40000)})
        for (int p : {1, 2, 7, 20})
            for (int copies = 0; copies <= 2; ++copies) {
                std::vector<K> data(n);
                for (size_t i = 0; i < n; ++i) data[i] = K(10 + 3 * i);
                for (int j = 0; j < copies; ++j) data[n - 1 - j] = ks::reserved<K>();
                std::string cs = std::string("part=reserved_large class=") + cls + " n=" + std::to_string(n) + " threads=" + std::to_string(p) + " reserved_copies=" + std::to_string(copies);
                c.run.set_case(cs); c.run.add(c.cn.cases);
                g_chunks = p;
                std::string what;
                Outcome o = outcome_of([&] { make(data); }, &what);
                g_chunks = 1;
                if (copies == 0) { c.run.add(c.cn.valid); if (o != ACCEPTED) c.run.violation(cs, std::string("valid data was rejected with ") + oname(o) + ": " + what); }
                else { c.run.add(c.cn.invalid); if (o != INVALID_ARGUMENT) c.run.violation(cs, std::string("data containing the reserved value: expected std::invalid_argument, got ") + oname(o)); }
            }
}

// ---- 2-5. DynamicPGMIndex ----------------------------------------------------------------------------------------------------------
using Dyn = pgm::DynamicPGMIndex<uint32_t, uint32_t, pgm::PGMIndex<uint32_t, 1, 1>>;
using DynI64 = pgm::DynamicPGMIndex<int64_t, int64_t, pgm::PGMIndex<int64_t, 2, 1>>;

static void dynamic_bases(Ctx &c) {
    for (int base = 2; base <= 255; ++base) {
        bool pow2 = (base & (base - 1)) == 0;
        for (int mode = 0; mode < 3; ++mode) {
            std::string cs = "part=base base=" + std::to_string(base) + " mode=" + std::to_string(mode);
            c.run.set_case(cs); c.run.add(c.cn.bases); c.run.add(c.cn.cases);
            std::vector<std::pair<uint32_t, uint32_t>> init = {{1, 1}, {2, 2}, {5, 3}};
            Outcome o = outcome_of([&] {
                if (mode == 0) { Dyn d{uint8_t(base)}; d.insert_or_assign(3, 4); }
                else if (mode == 1) { Dyn d(uint8_t(base), uint8_t(1), uint8_t(2)); d.insert_or_assign(3, 4); }
                else { Dyn d(init.begin(), init.end(), uint8_t(base)); (void) d.find(2); }
            });
            if (pow2) { c.run.add(c.cn.valid); if (o != ACCEPTED) c.run.violation(cs, std::string("power-of-two base was rejected with ") + oname(o)); }
            else { c.run.add(c.cn.invalid); if (o != INVALID_ARGUMENT) c.run.violation(cs, std::string("base that is not a power of two: expected std::invalid_argument, got ") + oname(o)); }
        }
    }
}

template<typename D, typename K>
static void dynamic_bulk(Ctx &c, const char *name, int maxlen) {
    // every sequence of <= maxlen keys over 4 values: sorted (non-decreasing) must be accepted, any inversion must be rejected
    std::vector<K> vals = {K(3), K(4), K(9), K(std::numeric_limits<K>::max() - 1)};
    for (int len = 1; len <= maxlen; ++len) {
        std::vector<int> idx(len, 0);
        for (;;) {
            std::vector<std::pair<K, K>> pairs; bool sorted = true;
            for (int i = 0; i < len; ++i) { pairs.emplace_back(vals[idx[i]], K(i + 1)); if (i > 0 && vals[idx[i]] < vals[idx[i - 1]]) sorted = false; }
            std::string cs = std::string("part=bulk type=") + name + " keys="; for (int i = 0; i < len; ++i) cs += (i ? "," : "") + mc::key_str(vals[idx[i]]);
            c.run.set_case(cs); c.run.add(c.cn.bulk); c.run.add(c.cn.cases);
            for (int cfgi = 0; cfgi < 2; ++cfgi) {
                Outcome o = outcome_of([&] { if (cfgi == 0) { D d(pairs.begin(), pairs.end()); (void) d.size(); } else { D d(pairs.begin(), pairs.end(), uint8_t(2), uint8_t(1), uint8_t(2)); (void) d.size(); } });
                if (sorted) { c.run.add(c.cn.valid); if (o != ACCEPTED) c.run.violation(cs, std::string("sorted bulk-load range was rejected with ") + oname(o)); }
                else { c.run.add(c.cn.invalid); if (o != INVALID_ARGUMENT) c.run.violation(cs, std::string("unsorted bulk-load range: expected std::invalid_argument, got ") + oname(o)); }
            }
            // the reserved mapped value at every position of an otherwise valid bulk-load range
            if (sorted)
                for (int pos = 0; pos < len; ++pos) {
                    auto bad = pairs; bad[pos].second = std::numeric_limits<K>::max();
                    std::string cs2 = cs + " reserved_value_at=" + std::to_string(pos);
                    c.run.set_case(cs2); c.run.add(c.cn.invalid);
                    Outcome o = outcome_of([&] { D d(bad.begin(), bad.end(), uint8_t(2), uint8_t(1), uint8_t(2)); (void) d.size(); });
                    // a repeated key keeps only its first pair, so a reserved value in a dropped duplicate is never stored
                    bool dropped = pos > 0 && bad[pos].first == bad[pos - 1].first;
                    if (o != INVALID_ARGUMENT && !dropped) c.run.violation(cs2, std::string("bulk-load with the reserved mapped value: expected std::invalid_argument, got ") + oname(o));
                }
            int i = len - 1; while (i >= 0 && ++idx[i] == int(vals.size())) { idx[i] = 0; --i; }
            if (i < 0) break;
        }
    }
}

template<typename D> static std::string canon(const D &d) {
    std::string s = "u" + std::to_string(int(d.used_levels));
    for (size_t li = 0; li < d.levels.size(); ++li) { if (d.levels[li].empty()) continue; s += "|L" + std::to_string(li) + ":"; for (auto &it : d.levels[li]) s += std::to_string(it.first) + (it.deleted() ? "T" : "=" + std::to_string(it.second)) + ","; }
    return s;
}
template<typename D> static std::string answers(const D &d) {
    std::string s;
    for (uint32_t q = 0; q < 12; ++q) { auto f = d.find(q); s += f == d.end() ? "-" : std::to_string(f->second); auto lb = d.lower_bound(q); s += lb == d.end() ? "e" : std::to_string(lb->first); s += ';'; }
    for (auto it = d.begin(); it != d.end(); ++it) s += std::to_string(it->first) + ",";
    for (auto &p : d.range(1, 9)) s += std::to_string(p.first) + ":" + std::to_string(p.second) + " ";
    return s + "#" + std::to_string(d.size());
}

// every history of depth <= D over 3 keys; at every point the reserved value is offered for every key and lo>hi ranges are tried;
// values next to the reserved one (and other special values of the mapped type) must be accepted and found afterwards
template<typename D_, typename K, typename V>
static void dynamic_tombstone_t(Ctx &c, const char *tname, int D, int first_op, uint8_t base, uint8_t buf, uint8_t idxl) {
    const K keys[3] = {2, 3, 7};
    struct Op { int kind; int k; };
    std::vector<Op> ops; for (int k = 0; k < 3; ++k) { ops.push_back({0, k}); ops.push_back({1, k}); }
    const V reserved = std::numeric_limits<V>::max();
    std::vector<V> special;   // ordinary values that look special
    if constexpr (std::is_floating_point_v<V>) { special = {std::numeric_limits<V>::infinity(), std::nextafter(reserved, V(0)), std::numeric_limits<V>::lowest(), V(0)}; }
    else { special = {V(reserved - 1), V(0), std::numeric_limits<V>::lowest()}; if constexpr (std::is_signed_v<V>) special.push_back(V(-1)); }
    if constexpr (!std::is_same_v<K, V>) { if (double(std::numeric_limits<K>::max()) < double(reserved)) special.push_back(V(std::numeric_limits<K>::max())); }
    std::function<void(D_ &, std::vector<int> &)> rec = [&](D_ &d, std::vector<int> &hist) {
        std::string h; for (size_t i = 0; i < hist.size(); ++i) h += (i ? "," : "") + std::string(ops[hist[i]].kind ? "E" : "I") + std::to_string(keys[ops[hist[i]].k]);
        std::string cs = std::string("part=tombstone type=") + tname + " base=" + std::to_string(base) + " buf=" + std::to_string(buf) + " idx=" + std::to_string(idxl) + " hist=" + (h.empty() ? "-" : h);
        c.run.set_case(cs); c.run.add(c.cn.cases);
        std::string before_c = canon(d), before_a = answers(d);
        for (K k : {K(2), K(3), K(5), K(7)}) {
            c.run.add(c.cn.rejected_inserts); c.run.add(c.cn.invalid);
            Outcome o = outcome_of([&] { d.insert_or_assign(k, reserved); });
            if (o != INVALID_ARGUMENT) { c.run.violation(cs + " key=" + std::to_string(k), std::string("insert_or_assign with the reserved value: expected std::invalid_argument, got ") + oname(o)); return; }
            c.run.add(c.cn.states_compared);
            if (canon(d) != before_c || answers(d) != before_a) { c.run.violation(cs + " key=" + std::to_string(k), "a rejected insert changed the container"); return; }
        }
        for (size_t si = 0; si < special.size(); ++si) {   // on a copy: an ordinary value must be stored and found
            c.run.add(c.cn.valid);
            D_ n(d); V v = special[si];
            Outcome o = outcome_of([&] { n.insert_or_assign(K(5), v); });
            if (o != ACCEPTED) { c.run.violation(cs + " special_value#" + std::to_string(si), std::string("insert_or_assign with an ordinary value was rejected with ") + oname(o)); return; }
            auto f = n.find(K(5));
            if (f == n.end() || !(f->second == v)) { c.run.violation(cs + " special_value#" + std::to_string(si), "a value that is not reserved was not stored (find() does not return it)"); return; }
        }
        for (uint32_t lo = 0; lo < 10; lo += 3) for (uint32_t hi = 0; hi < 10; hi += 2) {
            c.run.add(c.cn.ranges);
            Outcome o = outcome_of([&] { (void) d.range(K(lo), K(hi)); });
            if (lo > hi) { c.run.add(c.cn.invalid); if (o != INVALID_ARGUMENT) { c.run.violation(cs + " range=" + std::to_string(lo) + ".." + std::to_string(hi), std::string("range(lo > hi): expected std::invalid_argument, got ") + oname(o)); return; } }
            else { c.run.add(c.cn.valid); if (o != ACCEPTED) { c.run.violation(cs + " range=" + std::to_string(lo) + ".." + std::to_string(hi), std::string("range(lo <= hi) was rejected with ") + oname(o)); return; } }
        }
        if (int(hist.size()) == D || c.run.deadline_passed()) return;
        for (size_t i = 0; i < ops.size(); ++i) {
            if (hist.empty() && int(i) != first_op) continue;
            D_ n(d);
            if (ops[i].kind == 0) n.insert_or_assign(keys[ops[i].k], V(hist.size() + 1)); else n.erase(keys[ops[i].k]);
            hist.push_back(int(i)); rec(n, hist); hist.pop_back();
        }
    };
    D_ d(base, buf, idxl); std::vector<int> hist;
    rec(d, hist);
}
static void dynamic_tombstone(Ctx &c, int D, int first_op, uint8_t base, uint8_t buf, uint8_t idxl) {
    dynamic_tombstone_t<Dyn, uint32_t, uint32_t>(c, "u32/u32", D, first_op, base, buf, idxl);
    if (base == 2) {   // other key / mapped-value type pairs at a smaller depth
        int d2 = std::max(2, D - 2);
        dynamic_tombstone_t<pgm::DynamicPGMIndex<int32_t, int32_t, pgm::PGMIndex<int32_t, 1, 1>>, int32_t, int32_t>(c, "i32/i32", d2, first_op, base, buf, idxl);
        dynamic_tombstone_t<pgm::DynamicPGMIndex<uint32_t, uint64_t, pgm::PGMIndex<uint32_t, 1, 1>>, uint32_t, uint64_t>(c, "u32/u64", d2, first_op, base, buf, idxl);
        dynamic_tombstone_t<pgm::DynamicPGMIndex<uint32_t, int32_t, pgm::PGMIndex<uint32_t, 1, 1>>, uint32_t, int32_t>(c, "u32/i32", d2, first_op, base, buf, idxl);
        dynamic_tombstone_t<pgm::DynamicPGMIndex<int64_t, double, pgm::PGMIndex<int64_t, 2, 1>>, int64_t, double>(c, "i64/f64", d2, first_op, base, buf, idxl);
        dynamic_tombstone_t<pgm::DynamicPGMIndex<uint32_t, float, pgm::PGMIndex<uint32_t, 1, 1>>, uint32_t, float>(c, "u32/f32", d2, first_op, base, buf, idxl);
        dynamic_tombstone_t<pgm::DynamicPGMIndex<uint16_t, uint8_t, pgm::PGMIndex<uint16_t, 1, 1>>, uint16_t, uint8_t>(c, "u16/u8", d2, first_op, base, buf, idxl);
    }
}

// ---- 6. MultidimensionalPGMIndex -----------------------------------------------------------------------------------------------
template<uint8_t Dm, typename T, size_t... I> auto tup(const std::array<T, Dm> &a, std::index_sequence<I...>) { return std::make_tuple(a[I]...); }
// In: the coordinate type of the tuples the caller supplies (the constructor takes any iterator; a caller may hold wider integers)
template<uint8_t Dm, typename T, typename In = T> static void multidim_wide(Ctx &c, const char *name) {
    using MDI = pgm::MultidimensionalPGMIndex<Dm, T, 4>;
    In limit = In(1) << (sizeof(T) * 8 / Dm - 1);   // first value that does not fit
    std::vector<In> wide = {limit, In(limit + 1), In(limit * 2 - 1), In(std::numeric_limits<T>::max())};
    if constexpr (sizeof(In) > sizeof(T)) { wide.push_back((In(1) << (8 * sizeof(T))) + 5); wide.push_back(In(1) << 40); wide.push_back(std::numeric_limits<In>::max()); wide.push_back((In(3) << (8 * sizeof(T))) + In(limit - 1)); }
    for (int npts = 1; npts <= 3; ++npts)
        for (int pos = 0; pos < npts; ++pos)
            for (int dim = 0; dim < Dm; ++dim) {
                auto build = [&](In v) {
                    std::vector<decltype(tup<Dm, In>(std::array<In, Dm>{}, std::make_index_sequence<Dm>()))> pts;
                    for (int p = 0; p < npts; ++p) { std::array<In, Dm> a; for (int d = 0; d < Dm; ++d) a[d] = In(p + d); if (p == pos) a[dim] = v; pts.push_back(tup<Dm, In>(a, std::make_index_sequence<Dm>())); }
                    MDI m(pts.begin(), pts.end());
                    (void) m.size_in_bytes();
                };
                std::string cs = std::string("part=multidim cfg=") + name + " points=" + std::to_string(npts) + " pos=" + std::to_string(pos) + " dim=" + std::to_string(dim);
                c.run.set_case(cs); c.run.add(c.cn.multidim); c.run.add(c.cn.cases);
                c.run.add(c.cn.valid);
                Outcome ok = outcome_of([&] { build(In(limit - 1)); });
                if (ok != ACCEPTED) c.run.violation(cs + " value=" + mc::key_str(In(limit - 1)), std::string("the largest encodable coordinate was rejected with ") + oname(ok));
                for (In w : wide) {
                    c.run.add(c.cn.invalid);
                    Outcome o = outcome_of([&] { build(w); });
                    if (o == ACCEPTED) c.run.violation(cs + " value=" + mc::key_str(w), "a coordinate too wide for the encoder was accepted");
                }
            }
}

// tuples of a signed type: a negative coordinate is too wide for every encoder (it converts to a huge unsigned value)
template<uint8_t Dm, typename T, typename In> static void multidim_negative(Ctx &c, const char *name) {
    using MDI = pgm::MultidimensionalPGMIndex<Dm, T, 4>;
    for (int npts = 1; npts <= 3; ++npts) for (int pos = 0; pos < npts; ++pos) for (int dim = 0; dim < Dm; ++dim) {
        auto build = [&](In v) {
            std::vector<decltype(tup<Dm, In>(std::array<In, Dm>{}, std::make_index_sequence<Dm>()))> pts;
            for (int p = 0; p < npts; ++p) { std::array<In, Dm> a; for (int d = 0; d < Dm; ++d) a[d] = In(p + d); if (p == pos) a[dim] = v; pts.push_back(tup<Dm, In>(a, std::make_index_sequence<Dm>())); }
            MDI m(pts.begin(), pts.end());
            (void) m.size_in_bytes();
        };
        std::string cs = std::string("part=multidim cfg=") + name + " points=" + std::to_string(npts) + " pos=" + std::to_string(pos) + " dim=" + std::to_string(dim);
        c.run.set_case(cs); c.run.add(c.cn.multidim); c.run.add(c.cn.cases); c.run.add(c.cn.valid);
        Outcome ok = outcome_of([&] { build(In(5)); });
        if (ok != ACCEPTED) c.run.violation(cs + " value=5", std::string("a small non-negative coordinate was rejected with ") + oname(ok));
        for (In w : {In(-1), In(-2), std::numeric_limits<In>::lowest()}) {
            c.run.add(c.cn.invalid);
            Outcome o = outcome_of([&] { build(w); });
            if (o == ACCEPTED) c.run.violation(cs + " value=" + std::to_string(long(w)), "a negative coordinate was accepted");
        }
    }
}

// ---- 7. segmentation builder ----------------------------------------------------------------------------------------------------
template<typename X>
static void builder_sequences(Ctx &c, const char *name) {
    using Model = pgm::internal::OptimalPiecewiseLinearModel<X, size_t>;
    for (size_t eps : {size_t(0), size_t(1)})
        for (int len = 1; len <= 4; ++len) {
            std::vector<int> xs(len, 0);
            for (;;) {
                std::string cs = std::string("part=builder x_type=") + name + " eps=" + std::to_string(eps) + " xs="; for (int i = 0; i < len; ++i) cs += (i ? "," : "") + std::to_string(xs[i]);
                c.run.set_case(cs); c.run.add(c.cn.builder); c.run.add(c.cn.cases);
                Model m(eps);
                bool in_segment = false; X last = 0; bool stop = false;
                for (int i = 0; i < len && !stop; ++i) {
                    X x = X(xs[i] * 3 + 1);
                    bool want_throw = in_segment && !(x > last);
                    bool accepted = true;
                    Outcome o = outcome_of([&] { accepted = m.add_point(x, size_t(i)); });
                    if (want_throw) { c.run.add(c.cn.invalid); if (o != LOGIC_ERROR) { c.run.violation(cs + " at=" + std::to_string(i), std::string("key not exceeding its predecessor inside a segment: expected std::logic_error, got ") + oname(o)); } stop = true; }
                    else {
                        c.run.add(c.cn.valid);
                        if (o != ACCEPTED) { c.run.violation(cs + " at=" + std::to_string(i), std::string("increasing key was rejected with ") + oname(o)); stop = true; }
                        else if (!accepted) { in_segment = false; Outcome o2 = outcome_of([&] { m.add_point(x, size_t(i)); }); if (o2 != ACCEPTED) { c.run.violation(cs + " at=" + std::to_string(i), "first point of a new segment was rejected"); stop = true; } in_segment = true; last = x; }
                        else { in_segment = true; last = x; }
                    }
                }
                int i = len - 1; while (i >= 0 && ++xs[i] == 3) { xs[i] = 0; --i; }
                if (i < 0) break;
            }
        }
    // negative epsilon on a signed rank type
    for (long e : {-1L, -2L, -1000L, std::numeric_limits<long>::min()}) {
        std::string cs = std::string("part=builder x_type=") + name + " negative_eps=" + std::to_string(e);
        c.run.set_case(cs); c.run.add(c.cn.cases); c.run.add(c.cn.invalid);
        Outcome o = outcome_of([&] { pgm::internal::OptimalPiecewiseLinearModel<X, long> m(e); (void) m; });
        if (o != INVALID_ARGUMENT) c.run.violation(cs, std::string("negative epsilon: expected std::invalid_argument, got ") + oname(o));
    }
    // negative epsilon on every other signed rank type, integral (narrow and wide) and floating (fractions and -infinity as well)
    auto neg_eps = [&](auto tag, const char *yname, std::initializer_list<long double> es) {
        using Y = decltype(tag);
        for (long double ed : es) {
            Y e = Y(ed);
            std::string cs = std::string("part=builder x_type=") + name + " y_type=" + yname + " negative_eps=" + std::to_string(ed);
            c.run.set_case(cs); c.run.add(c.cn.cases); c.run.add(c.cn.invalid);
            Outcome o = outcome_of([&] { pgm::internal::OptimalPiecewiseLinearModel<X, Y> m(e); (void) m; });
            if (o != INVALID_ARGUMENT) c.run.violation(cs, std::string("negative epsilon: expected std::invalid_argument, got ") + oname(o));
        }
        for (long double ed : {0.0L, 1.0L, 5.0L}) {
            c.run.add(c.cn.valid);
            Outcome o = outcome_of([&] { Y ev = Y(ed); pgm::internal::OptimalPiecewiseLinearModel<X, Y> m(ev); m.add_point(X(1), Y(0)); });
            if (o != ACCEPTED) c.run.violation(std::string("part=builder x_type=") + name + " y_type=" + yname + " eps=" + std::to_string(ed), "non-negative epsilon was rejected");
        }
    };
    neg_eps(int8_t(0), "i8", {-1.0L, -128.0L}); neg_eps(int16_t(0), "i16", {-1.0L, -32768.0L}); neg_eps(int32_t(0), "i32", {-1.0L, -7.0L, -2147483648.0L});
    neg_eps((long long)0, "long long", {-1.0L, -9223372036854775808.0L});
    neg_eps(float(0), "float", {-1.0L, -2.0L, -0.25L, -1e-30L, -3e38L, -(long double) std::numeric_limits<float>::infinity()});
    neg_eps(double(0), "double", {-1.0L, -0.25L, -64.0L, -1e-300L, -1e308L, -(long double) std::numeric_limits<double>::infinity()});
    neg_eps((long double)0, "long double", {-1.0L, -1e-3L, -1e4000L});
    for (long e : {0L, 1L, 5L}) {
        c.run.add(c.cn.valid);
        Outcome o = outcome_of([&] { pgm::internal::OptimalPiecewiseLinearModel<X, long> m(e); m.add_point(X(1), 0); });
        if (o != ACCEPTED) c.run.violation(std::string("part=builder x_type=") + name + " eps=" + std::to_string(e), "non-negative epsilon was rejected");
    }
}

struct Task { int part, sub, palette, len, first; };

int main(int argc, char **argv) {
    auto opt = mc::parse_args(argc, argv);
    if (opt.property != "C20") { fprintf(stderr, "usage: reject --prop C20 [--tier ..]\n"); return 2; }
    bool thorough = opt.tier == "thorough";
    Run run(opt, "reject");
    Cn cn(run);
    long parent = getpid();
    g_dir = std::string(access("/dev/shm", W_OK) == 0 ? "/dev/shm" : "/tmp") + "/verif_reject_" + std::to_string(parent);
    mkdir(g_dir.c_str(), 0700);
    int N = thorough ? 7 : 6, D = thorough ? 8 : 7;
    std::vector<Task> tasks;
    if (!opt.replay.empty()) {
        // replay: the case string names the part; re-run that whole (small) part and report
        auto m = mc::parse_case(mc::json_field(mc::read_file(opt.replay), "case"));
        printf("replay: re-running part '%s' completely (parts are small)\n", m["part"].c_str());
        run.opt.write_evidence = false;
        opt.extra["only"] = m["part"];
    }
    std::string only = opt.extra.count("only") ? opt.extra["only"] : "";
    auto want = [&](const char *p) { return only.empty() || only == p; };
    // part 1: sub 0..: static classes
    const int NSUB = 16;
    if (want("reserved")) for (int sub = 0; sub < NSUB; ++sub) for (int len = 1; len <= N; ++len) for (int p = 0; p < 3; ++p) for (int f = 0; f < 10; ++f) tasks.push_back({1, sub, p, len, f});
    if (want("reserved_large")) for (int sub = 0; sub < 6; ++sub) tasks.push_back({7, sub, 0, 0, 0});
    if (want("base")) tasks.push_back({2, 0, 0, 0, 0});
    if (want("bulk")) { tasks.push_back({3, 0, 0, 0, 0}); tasks.push_back({3, 1, 0, 0, 0}); }
    if (want("tombstone")) for (int cfg = 0; cfg < 3; ++cfg) for (int f = 0; f < 6; ++f) tasks.push_back({4, cfg, 0, 0, f});
    if (want("multidim")) tasks.push_back({5, 0, 0, 0, 0});
    if (want("builder")) tasks.push_back({6, 0, 0, 0, 0});
    std::stable_sort(tasks.begin(), tasks.end(), [](const Task &a, const Task &b) { return a.part > b.part; });

    run.run_tasks(tasks.size(), [&](uint64_t ti) {
        if (run.deadline_passed()) return;
        const Task &t = tasks[ti];
        Ctx c{run, cn};
        std::string f1 = g_dir + "/m" + std::to_string(getpid()) + ".bin", raw = g_dir + "/r" + std::to_string(getpid()) + ".bin";
        auto cleanup = [&] { for (int fd = 3; fd < 64; ++fd) close(fd); unlink(f1.c_str()); unlink(raw.c_str()); };
        if (t.part == 1) {
            switch (t.sub) {
                case 0: reserved_static<uint64_t>(c, "PGMIndex<u64,1,1>", t.palette, t.len, t.first, [](const std::vector<uint64_t> &d) { pgm::PGMIndex<uint64_t, 1, 1> x(d.begin(), d.end()); }); break;
                case 1: reserved_static<int32_t>(c, "PGMIndex<i32,2,0>", t.palette, t.len, t.first, [](const std::vector<int32_t> &d) { pgm::PGMIndex<int32_t, 2, 0> x(d.begin(), d.end()); }); break;
                case 2: reserved_static<float>(c, "PGMIndex<f32,1,1>", t.palette, t.len, t.first, [](const std::vector<float> &d) { pgm::PGMIndex<float, 1, 1> x(d.begin(), d.end()); }); break;
                case 3: reserved_static<double>(c, "PGMIndex<f64,2,1,double>", t.palette, t.len, t.first, [](const std::vector<double> &d) { pgm::PGMIndex<double, 2, 1, double> x(d.begin(), d.end()); }); break;
                case 4: reserved_static<uint64_t>(c, "Compressed<u64,1,1>", t.palette, t.len, t.first, [](const std::vector<uint64_t> &d) { pgm::CompressedPGMIndex<uint64_t, 1, 1> x(d.begin(), d.end()); }); break;
                case 5: reserved_static<uint16_t>(c, "Compressed<u16,2,0>", t.palette, t.len, t.first, [](const std::vector<uint16_t> &d) { pgm::CompressedPGMIndex<uint16_t, 2, 0> x(d.begin(), d.end()); }); break;
                case 6: reserved_static<uint32_t>(c, "Bucketing<u32,1,4,32>", t.palette, t.len, t.first, [](const std::vector<uint32_t> &d) { pgm::BucketingPGMIndex<uint32_t, 1, 4, 32> x(d.begin(), d.end()); }); break;
                case 7: reserved_static<uint64_t>(c, "EliasFano<u64,1>", t.palette, t.len, t.first, [](const std::vector<uint64_t> &d) { pgm::EliasFanoPGMIndex<uint64_t, 1> x(d.begin(), d.end()); }); break;
                case 8: reserved_static<int64_t>(c, "Mapped<i64,1,1>(range)", t.palette, t.len, t.first, [&](const std::vector<int64_t> &d) { struct G { std::function<void()> f; ~G() { f(); } } g{cleanup}; pgm::MappedPGMIndex<int64_t, 1, 1> x(d.begin(), d.end(), f1); }); break;
                case 9: reserved_static<uint32_t>(c, "Mapped<u32,2,0>(raw)", t.palette, t.len, t.first, [&](const std::vector<uint32_t> &d) {
                    struct G { std::function<void()> f; ~G() { f(); } } g{cleanup};
                    FILE *f = fopen(raw.c_str(), "wb"); fwrite(d.data(), sizeof(uint32_t), d.size(), f); fclose(f);
                    pgm::MappedPGMIndex<uint32_t, 2, 0> x(raw, f1); }); break;
                case 14: reserved_static<double>(c, "Compressed<f64,1,1>", t.palette, t.len, t.first, [](const std::vector<double> &d) { pgm::CompressedPGMIndex<double, 1, 1> x(d.begin(), d.end()); }); break;
                case 15: reserved_static<float>(c, "Compressed<f32,2,0>", t.palette, t.len, t.first, [](const std::vector<float> &d) { pgm::CompressedPGMIndex<float, 2, 0> x(d.begin(), d.end()); }); break;
                case 10: reserved_c<int32_t>(c, "int32", t.palette, t.len, t.first, pgm_index_int32_create, pgm_index_int32_destroy); break;
                case 11: reserved_c<int64_t>(c, "int64", t.palette, t.len, t.first, pgm_index_int64_create, pgm_index_int64_destroy); break;
                case 12: reserved_c<uint32_t>(c, "uint32", t.palette, t.len, t.first, pgm_index_uint32_create, pgm_index_uint32_destroy); break;
                case 13: reserved_c<uint64_t>(c, "uint64", t.palette, t.len, t.first, pgm_index_uint64_create, pgm_index_uint64_destroy); break;
            }
        } else if (t.part == 7) {
            switch (t.sub) {
                case 0: reserved_large<uint64_t>(c, "PGMIndex<u64,4,2>", [](const std::vector<uint64_t> &d) { pgm::PGMIndex<uint64_t, 4, 2> x(d.begin(), d.end()); }); break;
                case 1: reserved_large<int32_t>(c, "PGMIndex<i32,1,0>", [](const std::vector<int32_t> &d) { pgm::PGMIndex<int32_t, 1, 0> x(d.begin(), d.end()); }); break;
                case 2: reserved_large<uint32_t>(c, "Bucketing<u32,4,16,32>", [](const std::vector<uint32_t> &d) { pgm::BucketingPGMIndex<uint32_t, 4, 16, 32> x(d.begin(), d.end()); }); break;
                case 3: reserved_large<uint64_t>(c, "EliasFano<u64,4>", [](const std::vector<uint64_t> &d) { pgm::EliasFanoPGMIndex<uint64_t, 4> x(d.begin(), d.end()); }); break;
                case 4: reserved_large<uint64_t>(c, "Compressed<u64,4,2>", [](const std::vector<uint64_t> &d) { pgm::CompressedPGMIndex<uint64_t, 4, 2> x(d.begin(), d.end()); }); break;
                case 5: reserved_large<uint64_t>(c, "c_uint64", [](const std::vector<uint64_t> &d) { auto *p = pgm_index_uint64_create(d.data(), d.size(), 4); if (!p) throw std::invalid_argument("NULL"); pgm_index_uint64_destroy(p); }); break;
            }
        } else if (t.part == 2) dynamic_bases(c);
        else if (t.part == 3) { if (t.sub == 0) dynamic_bulk<Dyn, uint32_t>(c, "u32", thorough ? 5 : 4); else dynamic_bulk<DynI64, int64_t>(c, "i64", thorough ? 5 : 4); }
        else if (t.part == 4) { static const uint8_t cfgs[3][3] = {{2, 1, 2}, {4, 1, 2}, {8, 0, 0}}; dynamic_tombstone(c, D, t.first, cfgs[t.sub][0], cfgs[t.sub][1], cfgs[t.sub][2]); }
        else if (t.part == 5) { multidim_wide<2, uint32_t>(c, "md<2,u32>"); multidim_wide<3, uint32_t>(c, "md<3,u32>"); multidim_wide<2, uint64_t>(c, "md<2,u64>"); multidim_wide<3, uint64_t>(c, "md<3,u64>"); multidim_wide<4, uint64_t>(c, "md<4,u64>"); multidim_wide<2, uint32_t, uint64_t>(c, "md<2,u32> from u64 tuples"); multidim_wide<3, uint32_t, uint64_t>(c, "md<3,u32> from u64 tuples");
            multidim_negative<2, uint64_t, int16_t>(c, "md<2,u64> from i16 tuples"); multidim_negative<3, uint64_t, int16_t>(c, "md<3,u64> from i16 tuples"); multidim_negative<2, uint32_t, int8_t>(c, "md<2,u32> from i8 tuples"); multidim_negative<2, uint64_t, int64_t>(c, "md<2,u64> from i64 tuples"); }
        else { builder_sequences<uint32_t>(c, "u32"); builder_sequences<uint64_t>(c, "u64"); builder_sequences<int64_t>(c, "i64"); builder_sequences<double>(c, "f64"); }
    });
    { std::string cmd = "rm -rf " + g_dir; if (system(cmd.c_str())) {} }
    if (!opt.replay.empty()) { auto v = run.sh->violations.load(); printf("replay verdict: %s\n", v ? "VIOLATION reproduced" : "no violation"); return v ? 1 : 0; }

    run.sample("part=reserved class=PGMIndex<u64,1,1> data=0,1,1,3 reserved_copies=1..3 (and the same data without the reserved value)");
    run.sample("part=base base=2..255 x {default, (base,1,2), bulk-load} constructors");
    run.sample("part=bulk type=u32 keys=4,3,9 (every sequence of <= 4 keys over 4 values: sorted accepted, any inversion rejected)");
    run.sample("part=tombstone base=2 buf=1 idx=2 hist=I2,I3,E2,I7 key=3 (reserved value offered for every key at every point of every history)");
    run.sample("part=multidim cfg=md<3,u32> points=2 pos=1 dim=2 value=512 (first value too wide for 10-bit fields)");
    run.sample("part=builder x_type=u64 eps=1 xs=0,1,1,2");
    mc::Run::EvidenceExtra ev;
    ev.states_counter = "distinct_cases"; ev.transitions_counter = "invalid_inputs_checked_to_be_rejected"; ev.nontrivial_counter = "invalid_inputs_checked_to_be_rejected"; ev.eval_counter = "valid_neighbour_inputs_checked_to_be_accepted";
    ev.rule = "every sorted array of length 1.." + std::to_string(N) + " over three palettes with 1..3 copies of the reserved value appended (numeric max, +infinity for floating keys) must make PGMIndex, CompressedPGMIndex, BucketingPGMIndex, EliasFanoPGMIndex, MappedPGMIndex (range and raw-file constructors) throw std::invalid_argument and the four C create functions return NULL, while the same array without it is accepted; the same with 32767/32768/40000-key inputs and 1..20 construction threads (chunked segmentation); "
              "DynamicPGMIndex: every base 2..255 through three constructors (reject iff not a power of two); every sequence of <= " + std::to_string(thorough ? 5 : 4) + " bulk-load keys over 4 values (reject iff an inversion exists); every history of depth <= " + std::to_string(D) +
              " over 3 keys (mapped types u32, and at a smaller depth i32, u64, double, float, u8 with keys of another type) with the reserved mapped value offered for 4 keys at every point and the values next to it, -1, +infinity and the largest key value stored and found on a copy (must throw and leave canonical state and all answers unchanged) and lo>hi ranges tried at every point; MultidimensionalPGMIndex: every point position x dimension with the coordinate at the first too-wide value and above (reject) and just below (accept), also from tuples of a wider integer type whose values only fit after truncation and from tuples of signed types with negative coordinates; "
              "builder: every add_point sequence of length <= 4 over 3 x-values, epsilon 0/1 (std::logic_error exactly when x does not exceed its predecessor inside a segment), negative epsilon on every signed rank type (8..64-bit integers, float, double, long double; whole, fractional, huge and infinite values). State = one case; non-trivial = an invalid input that must be rejected.";
    ev.bounds = "N<=" + std::to_string(N) + ", history depth " + std::to_string(D);
    ev.assumptions = {"the kind of exception is the one the property names; for too-wide coordinates any exception counts as rejection"};
    return run.finish(ev);
}
