// Engine `cabi`: bounded-exhaustive exploration of the C interface (C18). Only functions declared in cpgm.h are called;
// c-interface/cpgm.cpp is compiled from the repository and linked in.
#include "../mc/common.hpp"
#include "keyspace.hpp"
#include "cpgm.h"
#include "pgm/pgm_index.hpp"   // oracle only (size of the C++ index with the same parameters); every call under test goes through cpgm.h
#include <map>

extern "C" int omp_get_num_procs(void) noexcept { return 1; }
extern "C" int omp_get_max_threads(void) noexcept { return 1; }
extern "C" int omp_get_thread_num(void) noexcept { return 0; }      // pragmas are ignored in this build: every parallel region runs as a team of one
extern "C" int omp_get_num_threads(void) noexcept { return 1; }
extern "C" int omp_in_parallel(void) noexcept { return 0; }
extern "C" void omp_set_num_threads(int) noexcept {}
extern "C" int omp_get_thread_limit(void) noexcept { return 1; }

#ifdef VERIF_ASAN
extern "C" void __asan_on_error() {
    if (mc::g_run) mc::g_run->violation(mc::g_run->worker_id >= 0 ? mc::g_run->sh->slot[mc::g_run->worker_id] : "(parent)", "AddressSanitizer reported an invalid memory access");
}
extern "C" const char *__asan_default_options() { return "halt_on_error=0:detect_leaks=0:print_summary=0"; }
#endif

using mc::Run;

template<typename T> struct Api;
#define API(type, T)                                                                                                     \
    template<> struct Api<T> {                                                                                           \
        using Pair = pair_##type##_t;                                                                                    \
        static const char *name() { return #type; }                                                                      \
        static void *create(const T *a, size_t n, size_t e) { return pgm_index_##type##_create(a, n, e); }               \
        static void destroy(void *p) { pgm_index_##type##_destroy((pgm_index_##type##_t *) p); }                         \
        static approx_pos_t search(void *p, T q) { return pgm_index_##type##_search((pgm_index_##type##_t *) p, q); }    \
        static size_t bytes(void *p) { return pgm_index_##type##_size_in_bytes((pgm_index_##type##_t *) p); }            \
        static void *dcreate(const Pair *a, size_t n) { return dynamic_pgm_index_##type##_create(a, n); }                \
        static void *dcreate_empty() { return dynamic_pgm_index_##type##_create_empty(); }                               \
        static void ddestroy(void *p) { dynamic_pgm_index_##type##_destroy((dynamic_pgm_index_##type##_t *) p); }        \
        static size_t dsize(void *p) { return dynamic_pgm_index_##type##_size((dynamic_pgm_index_##type##_t *) p); }     \
        static void dinsert(void *p, T k, T v) { dynamic_pgm_index_##type##_insert_or_assign((dynamic_pgm_index_##type##_t *) p, k, v); } \
        static void derase(void *p, T k) { dynamic_pgm_index_##type##_erase((dynamic_pgm_index_##type##_t *) p, k); }    \
        static bool dfind(void *p, T k, T *v) { return dynamic_pgm_index_##type##_find((dynamic_pgm_index_##type##_t *) p, k, v); } \
        static void *dbegin(void *p) { return dynamic_pgm_index_##type##_begin((dynamic_pgm_index_##type##_t *) p); }    \
        static void *dlower(void *p, T q) { return dynamic_pgm_index_##type##_lower_bound((dynamic_pgm_index_##type##_t *) p, q); } \
        static bool dnext(void *p, void *it, T *k, T *v) { return dynamic_pgm_index_##type##_iterator_next((dynamic_pgm_index_##type##_t *) p, it, k, v); } \
        static void dit_destroy(void *it) { dynamic_pgm_index_##type##_iterator_destroy(it); }                           \
    };
API(int32, int32_t)
API(int64, int64_t)
API(uint32, uint32_t)
API(uint64, uint64_t)

struct Cn {
    int arrays, nontrivial, searches, null_checks, histories, steps, finds, iter_steps, deep_histories, merges;
    explicit Cn(Run &r) {
        arrays = r.counter("static_indexes_created"); nontrivial = r.counter("arrays_with_2plus_distinct_keys"); searches = r.counter("static_searches_checked");
        null_checks = r.counter("create_with_reserved_value_checks"); histories = r.counter("dynamic_histories_executed"); steps = r.counter("dynamic_steps_checked");
        finds = r.counter("dynamic_find_checks"); iter_steps = r.counter("dynamic_iterator_next_checks"); deep_histories = r.counter("dynamic_histories_from_deep_states");
        merges = r.counter("dynamic_histories_crossing_a_buffer_merge");
    }
};

template<typename T>
struct Explorer {
    using A = Api<T>;
    Run &run; Cn &cn;
    std::string case_of(const std::string &d) const { return std::string("type=") + A::name() + " " + d; }

    // ---- static part -------------------------------------------------------------------------------------------------------
    void check_static(const std::vector<T> &data, const std::vector<T> &queries, size_t eps, const std::string &desc) {
        std::string cs = case_of("eps=" + std::to_string(eps) + " " + desc);
        run.set_case(cs);
        void *ix = A::create(data.data(), data.size(), eps);
        if (!ix) { run.violation(cs, "create returned NULL for data without the reserved value"); return; }
        run.add(cn.arrays);
        if (data.front() != data.back()) run.add(cn.nontrivial);
        for (T q : queries) {
            run.set_case(cs + " q=" + mc::key_str(q));
            auto r = A::search(ix, q);
            run.add(cn.searches);
            size_t n = data.size();
            const char *err = nullptr;
            auto glb = size_t(std::lower_bound(data.begin(), data.end(), q) - data.begin());
            if (!(r.lo <= r.hi)) err = "lo > hi"; else if (r.hi > n) err = "hi > n"; else if (r.hi - r.lo > 2 * eps + 2) err = "hi - lo > 2*epsilon + 2";
            else {
                bool present = glb < n && data[glb] == q;
                if (present && !(r.lo <= glb && glb < r.hi)) err = "first occurrence of a present key not in [lo, hi)";
                else if (size_t(std::lower_bound(data.begin() + r.lo, data.begin() + r.hi, q) - data.begin()) != glb) err = "lower_bound inside [lo, hi) differs from the global lower_bound";
            }
            if (err) run.violation(cs + " q=" + mc::key_str(q), std::string(err) + " (lo " + std::to_string(r.lo) + " hi " + std::to_string(r.hi) + ")");
        }
        {   // the wrapper builds the same index as the C++ class with that Epsilon (and EpsilonRecursive 4): same size in bytes
            size_t got = A::bytes(ix), want = 0;
            auto cpp = [&](auto tag) { pgm::PGMIndex<T, decltype(tag)::value, 4> ref(data.begin(), data.end()); return ref.size_in_bytes(); };
            switch (eps) {
                case 1: want = cpp(std::integral_constant<size_t, 1>{}); break; case 2: want = cpp(std::integral_constant<size_t, 2>{}); break;
                case 3: want = cpp(std::integral_constant<size_t, 3>{}); break; case 64: want = cpp(std::integral_constant<size_t, 64>{}); break;
                case 300: want = cpp(std::integral_constant<size_t, 300>{}); break; case 1000: want = cpp(std::integral_constant<size_t, 1000>{}); break;
                case 4096: want = cpp(std::integral_constant<size_t, 4096>{}); break; default: want = got;
            }
            if (got != want) run.violation(cs, "the index behind the C handle takes " + std::to_string(got) + " bytes, the C++ index with the same epsilon " + std::to_string(want));
        }
        A::destroy(ix);
        // the same data with the reserved value in it must be rejected
        if (data.size() <= 8) {
            std::vector<T> bad = data; bad.back() = std::numeric_limits<T>::max();
            run.set_case(cs + " (reserved value at the end)");
            run.add(cn.null_checks);
            void *b = A::create(bad.data(), bad.size(), eps);
            if (b) { run.violation(case_of("eps=" + std::to_string(eps) + " data=" + mc::keys_str(bad)), "create did not return NULL for data containing the reserved value"); A::destroy(b); }
        }
    }

    void static_small(int palette_id, int len, int first, const std::vector<size_t> &epss) {
        auto pal = ks::palette<T>(palette_id);
        auto queries = ks::query_alphabet<T>(pal);
        std::vector<T> data(len); bool sampled = false;
        mc::for_each_multiset(int(pal.size()), len, first, [&](const std::vector<int> &idx) {
            for (int i = 0; i < len; ++i) data[i] = pal[idx[i]];
            std::string desc = "data=" + mc::keys_str(data);
            if (!sampled && len >= 4 && first == (palette_id * 3 + len) % 10 && idx[0] != idx[len - 1]) { run.sample(case_of("eps=* " + desc)); sampled = true; }
            for (size_t e : epss) check_static(data, queries, e, desc);
            return !run.deadline_passed();
        });
    }
    void static_family(const ks::FamilySpec &spec, size_t eps) {
        std::vector<T> data, queries;
        if (!ks::generate_family<T>(spec, eps, data, queries)) return;
        check_static(data, queries, eps, "family=" + spec.str());
    }

    // ---- dynamic part ------------------------------------------------------------------------------------------------------
    struct Op { int kind; T key; T val; };   // 0 insert_or_assign, 1 erase
    static std::string ops_str(const std::vector<Op> &ops) {
        std::string s; for (size_t i = 0; i < ops.size(); ++i) { if (i) s += ','; s += ops[i].kind == 0 ? "I" + mc::key_str(ops[i].key) + ":" + mc::key_str(ops[i].val) : ops[i].kind == 1 ? "E" + mc::key_str(ops[i].key) : std::string("N"); }
        return s.empty() ? "-" : s;
    }
    static std::vector<Op> parse_ops(const std::string &s) {
        std::vector<Op> v; if (s == "-") return v;
        for (auto &t : mc::split(s, ',')) { if (t[0] == 'N') { v.push_back({2, 0, 0}); continue; } if (t[0] == 'I') { auto c = t.find(':'); v.push_back({0, mc::parse_key<T>(t.substr(1, c - 1)), mc::parse_key<T>(t.substr(c + 1))}); } else v.push_back({1, mc::parse_key<T>(t.substr(1)), 0}); }
        return v;
    }

    bool check_dynamic_state(void *d, const std::map<T, T> &m, const std::vector<T> &queries, const std::string &cs, bool full_iteration) {
        if (A::dsize(d) != m.size()) { run.violation(cs, "size() " + std::to_string(A::dsize(d)) + " != " + std::to_string(m.size())); return false; }
        for (T q : queries) {
            run.add(cn.finds);
            T v = 0; bool f = A::dfind(d, q, &v);
            auto it = m.find(q);
            if (f != (it != m.end()) || (f && v != it->second)) { run.violation(cs + " q=" + mc::key_str(q), "find() disagrees with the ordered map"); return false; }
            void *lb = A::dlower(d, q);
            auto mit = m.lower_bound(q);
            bool ok = true;
            for (int step = 0; step < (full_iteration ? 1 << 30 : 3); ++step) {
                run.add(cn.iter_steps);
                T k = 0, val = 0; bool has = A::dnext(d, lb, &k, &val);
                if (mit == m.end()) { if (has) { run.violation(cs + " q=" + mc::key_str(q), "lower_bound + iterator_next yields a pair beyond the last live key"); ok = false; } break; }
                if (!has || k != mit->first || val != mit->second) { run.violation(cs + " q=" + mc::key_str(q), "lower_bound + iterator_next yields " + (has ? mc::key_str(k) : std::string("end")) + ", the ordered map has " + mc::key_str(mit->first)); ok = false; break; }
                ++mit;
            }
            A::dit_destroy(lb);
            if (!ok) return false;
        }
        if (full_iteration || m.size() <= 16) {
            void *it = A::dbegin(d);
            auto mit = m.begin(); bool ok = true; size_t steps = 0;
            for (;;) {
                run.add(cn.iter_steps);
                T k = 0, val = 0; bool has = A::dnext(d, it, &k, &val);
                if (mit == m.end()) { if (has) { run.violation(cs, "begin + iterator_next yields a pair beyond the last live key"); ok = false; } break; }
                if (!has || k != mit->first || val != mit->second) { run.violation(cs, "begin + iterator_next yields " + (has ? mc::key_str(k) : std::string("end")) + ", the ordered map has " + mc::key_str(mit->first)); ok = false; break; }
                ++mit;
                if (++steps > m.size() + 2) { run.violation(cs, "iteration does not terminate"); ok = false; break; }
            }
            A::dit_destroy(it);
            if (!ok) return false;
        }
        return true;
    }

    // Executes a history on a fresh object; checks the states after steps >= check_from (earlier ones were checked by a sibling history)
    void run_history(const std::vector<std::pair<T, T>> &init, bool use_create, size_t fillers, const std::vector<Op> &ops, size_t check_from, const std::vector<T> &queries, const std::string &init_desc) {
        std::string cs = case_of("init=" + init_desc + " ops=" + ops_str(ops));
        run.set_case(cs);
        run.add(cn.histories);
        std::map<T, T> m;
        void *d;
        if (use_create) {
            std::vector<typename A::Pair> pairs;
            for (auto &p : init) { pairs.push_back({p.first, p.second}); if (!m.count(p.first)) m[p.first] = p.second; }
            d = A::dcreate(pairs.data(), pairs.size());
            if (!d) { run.violation(cs, "dynamic create returned NULL for a sorted range"); return; }
        } else d = A::dcreate_empty();
        for (size_t i = 0; i < fillers; ++i) { T k = T(100000 + 7 * i), v = T(i + 1); A::dinsert(d, k, v); m[k] = v; }
        if (fillers) run.add(cn.deep_histories);
        bool ok = true;
        if (check_from == 0) ok = check_dynamic_state(d, m, queries, cs + " after=init", false);
        for (size_t i = 0; i < ops.size() && ok; ++i) {
            run.set_case(cs + " step=" + std::to_string(i));
            if (ops[i].kind == 0) { A::dinsert(d, ops[i].key, ops[i].val); m[ops[i].key] = ops[i].val; } else { A::derase(d, ops[i].key); m.erase(ops[i].key); }
            run.add(cn.steps);
            if (i + 1 >= check_from) ok = check_dynamic_state(d, m, queries, cs + " after_step=" + std::to_string(i), fillers > 0 && i + 1 == ops.size());
        }
        A::ddestroy(d);
    }

    std::vector<T> dyn_keys() { return {T(10), T(11), T(13), T(20)}; }
    std::vector<T> dyn_queries(const std::vector<T> &keys) {
        std::vector<T> q = ks::query_alphabet<T>(keys);
        return q;
    }

    // all histories of length D whose first op index is `first_op`, from the given initial pairs
    void dynamic_bfs(const std::vector<std::pair<T, T>> &init, bool use_create, size_t fillers, int D, int first_op, const std::vector<T> &keys, const std::string &init_desc) {
        std::vector<Op> alphabet;
        const T second = std::is_signed_v<T> ? T(-1) : T(2);   // for the signed instantiations -1 is an ordinary value
        for (T k : keys) { alphabet.push_back({0, k, T(1)}); alphabet.push_back({0, k, second}); }
        for (T k : keys) alphabet.push_back({1, k, 0});
        auto queries = dyn_queries(keys);
        std::vector<int> sel(D, 0); sel[0] = first_op;
        std::vector<int> prev;
        bool sampled = false;
        for (;;) {
            std::vector<Op> ops; for (int i = 0; i < D; ++i) ops.push_back(alphabet[sel[i]]);
            size_t common = 0;
            if (!prev.empty()) while (common < size_t(D) && prev[common] == sel[common]) ++common;
            if (!sampled && D >= 3 && sel[1] == 5 && sel[2] == 9) { run.sample(case_of("init=" + init_desc + " ops=" + ops_str(ops))); sampled = true; }
            run_history(init, use_create, fillers, ops, prev.empty() ? 0 : common + 1, queries, init_desc);
            prev = sel;
            if (run.deadline_passed()) return;
            int i = D - 1;
            while (i >= 1 && ++sel[i] == int(alphabet.size())) { sel[i] = 0; --i; }
            if (i < 1) break;
        }
    }

    // ---- huge deep state: with the default parameters of the C interface a level only owns a PGM-index above 8^7 entries ----------
    // create() of 2^21+1 pairs (keys 10+2i), a scripted prefix of 40 consecutive erases (a run of tombstones longer than the
    // 2*16+2 search window of the level's index), then every history of depth D over keys around the run.
    struct HugeModel {
        static constexpr uint64_t N = (uint64_t(1) << 21) + 1;
        std::map<T, std::pair<bool, T>> overlay;   // key -> (live, value)
        static bool in_base(T k) { return k >= 10 && (uint64_t(k) - 10) % 2 == 0 && (uint64_t(k) - 10) / 2 < N; }
        static T base_val(T k) { return T(((uint64_t(k) - 10) / 2) % 3 + 1); }
        bool find(T k, T *v) const { auto it = overlay.find(k); if (it != overlay.end()) { if (it->second.first) *v = it->second.second; return it->second.first; } if (in_base(k)) { *v = base_val(k); return true; } return false; }
        bool lower_bound(T q, T *k, T *v) const {   // smallest live key >= q
            uint64_t c = q < T(10) ? 10 : uint64_t(q);
            for (int guard = 0; guard < 400; ++guard, ++c) { T v2; if (c > 10 + 2 * (N - 1) + 100) return false; if (find(T(c), &v2)) { *k = T(c); *v = v2; return true; } }
            return false;
        }
        size_t size() const { size_t s = N; for (auto &o : overlay) { bool b = in_base(o.first); if (b && !o.second.first) --s; if (!b && o.second.first) ++s; } return s; }
    };
    void huge_history(const std::vector<Op> &ops, size_t check_from) {
        std::string cs = case_of("init=huge2097153+40erases ops=" + ops_str(ops));
        run.set_case(cs);
        run.add(cn.histories); run.add(cn.deep_histories);
        std::vector<typename A::Pair> pairs(HugeModel::N);
        for (uint64_t i = 0; i < HugeModel::N; ++i) pairs[i] = {T(10 + 2 * i), T(i % 3 + 1)};
        void *d = A::dcreate(pairs.data(), pairs.size());
        pairs.clear(); pairs.shrink_to_fit();
        if (!d) { run.violation(cs, "dynamic create returned NULL for a sorted range"); return; }
        HugeModel m;
        const uint64_t P = 700000;
        auto key_at = [&](uint64_t i) { return T(10 + 2 * i); };
        for (uint64_t i = P; i < P + 40; ++i) { A::derase(d, key_at(i)); m.overlay[key_at(i)] = {false, 0}; }
        std::vector<T> queries = {T(key_at(P) - 3), T(key_at(P) - 2), T(key_at(P) - 1), key_at(P), T(key_at(P) + 1), key_at(P + 20), T(key_at(P + 39) + 1), key_at(P + 40), T(5), key_at(HugeModel::N - 1), T(key_at(HugeModel::N - 1) + 1)};
        auto check = [&](const std::string &where) {
            for (T q : queries) {
                run.add(cn.finds);
                T v = 0, mv = 0; bool f = A::dfind(d, q, &v), mf = m.find(q, &mv);
                if (f != mf || (f && v != mv)) { run.violation(cs + " " + where + " q=" + mc::key_str(q), "find() disagrees with the reference model"); return false; }
                void *lb = A::dlower(d, q);
                T cur = q; bool ok = true;
                for (int step = 0; step < 3 && ok; ++step) {
                    run.add(cn.iter_steps);
                    T k = 0, val = 0, mk = 0, mval = 0; bool has = A::dnext(d, lb, &k, &val), mhas = m.lower_bound(cur, &mk, &mval);
                    if (has != mhas || (has && (k != mk || val != mval))) { run.violation(cs + " " + where + " q=" + mc::key_str(q), "lower_bound + iterator_next yields " + (has ? mc::key_str(k) : std::string("end")) + ", the reference model says " + (mhas ? mc::key_str(mk) : std::string("end"))); ok = false; }
                    if (!mhas) break;
                    cur = T(mk + 1);
                }
                A::dit_destroy(lb);
                if (!ok) return false;
            }
            { void *it = A::dbegin(d); T k = 0, val = 0, mk = 0, mval = 0; bool has = A::dnext(d, it, &k, &val), mhas = m.lower_bound(std::numeric_limits<T>::min(), &mk, &mval); A::dit_destroy(it);
              if (has != mhas || (has && (k != mk || val != mval))) { run.violation(cs + " " + where, "begin + iterator_next disagrees with the reference model"); return false; } }
            if (A::dsize(d) != m.size()) { run.violation(cs + " " + where, "size() " + std::to_string(A::dsize(d)) + " != " + std::to_string(m.size())); return false; }
            return true;
        };
        bool ok = check_from == 0 ? check("after=prefix") : true;
        for (size_t i = 0; i < ops.size() && ok; ++i) {
            if (ops[i].kind == 0) { A::dinsert(d, ops[i].key, ops[i].val); m.overlay[ops[i].key] = {true, ops[i].val}; } else { A::derase(d, ops[i].key); m.overlay[ops[i].key] = {false, 0}; }
            run.add(cn.steps);
            if (i + 1 >= check_from) ok = check("after_step=" + std::to_string(i));
        }
        A::ddestroy(d);
    }
    std::vector<Op> huge_alphabet() {
        const uint64_t P = 700000; auto key_at = [&](uint64_t i) { return T(10 + 2 * i); };
        std::vector<Op> a;
        for (T k : {T(key_at(P) - 2), key_at(P), T(key_at(P) + 1), key_at(P + 39), key_at(P + 40)}) { a.push_back({0, k, T(7)}); a.push_back({1, k, 0}); }
        return a;
    }
    void huge_bfs(int D, int first_op) {
        auto alphabet = huge_alphabet();
        if (D == 0) { huge_history({}, 0); return; }
        std::vector<int> sel(D, 0); sel[0] = first_op; std::vector<int> prev;
        for (;;) {
            std::vector<Op> ops; for (int i = 0; i < D; ++i) ops.push_back(alphabet[sel[i]]);
            size_t common = 0; if (!prev.empty()) while (common < size_t(D) && prev[common] == sel[common]) ++common;
            huge_history(ops, prev.empty() ? 0 : common + 1);
            prev = sel;
            if (run.deadline_passed()) return;
            int i = D - 1; while (i >= 1 && ++sel[i] == int(alphabet.size())) { sel[i] = 0; --i; }
            if (i < 1) break;
        }
    }

    void replay(const std::map<std::string, std::string> &m) {
        if (m.count("init") && m.at("init").rfind("huge", 0) == 0) { huge_history(parse_ops(m.at("ops")), 0); return; }
        if (m.count("eps")) {
            size_t eps = strtoul(m.at("eps").c_str(), 0, 10);
            std::vector<T> data, queries;
            if (m.count("family")) { auto spec = ks::FamilySpec::parse(m.at("family")); ks::generate_family<T>(spec, eps, data, queries); }
            else { data = mc::parse_keys<T>(m.at("data")); std::vector<T> pal(data); pal.erase(std::unique(pal.begin(), pal.end()), pal.end()); queries = ks::query_alphabet<T>(pal); }
            if (m.count("q")) queries = {mc::parse_key<T>(m.at("q"))};
            check_static(data, queries, eps, m.count("family") ? "family=" + m.at("family") : "data=" + m.at("data"));
        } else {
            std::string init = m.at("init");
            std::vector<std::pair<T, T>> pairs; bool use_create = true; size_t fillers = 0;
            if (init == "empty") use_create = false;
            else if (init.rfind("deep3", 0) == 0) { deep3_history(parse_ops(m.at("ops"))); return; }
            else if (init.rfind("deep", 0) == 0) { for (size_t i = 0; i < 600; ++i) pairs.emplace_back(T(5 + 2 * i), T(i % 3 + 1)); pairs.emplace_back(T(200000), T(9)); fillers = init.find("+584") != std::string::npos ? 584 : 585; }
            else for (auto &t : mc::split(init, ';')) { auto c = t.find(':'); pairs.emplace_back(mc::parse_key<T>(t.substr(0, c)), mc::parse_key<T>(t.substr(c + 1))); }
            auto keys = init.rfind("deep", 0) == 0 ? deep_keys() : dyn_keys();
            run_history(pairs, use_create, fillers, parse_ops(m.at("ops")), 0, dyn_queries(keys), init);
        }
    }
    std::vector<T> deep_keys() { return {T(5), T(7), T(8), T(100000), T(100007), T(200000)}; }   // bulk-loaded, absent, filler keys, and a bulk-loaded key above every filler

    // Three-level scripted family (default parameters: buffer of 585 entries): create() of 5000 pairs lands in level 5; then
    // [op] + 585 fresh keys (flush into the empty level 4) + [op] + 585 fresh keys (flush into the now non-empty level 4) + [op],
    // for every choice of the three ops over two keys of the bulk-load: three versions of one key on three levels.
    void deep3_history(const std::vector<Op> &ops) {
        std::string cs = case_of("init=deep3 ops=" + ops_str(ops));
        run.set_case(cs); run.add(cn.histories); run.add(cn.deep_histories);
        std::map<T, T> m; std::vector<typename A::Pair> pairs;
        for (size_t i = 0; i < 5000; ++i) { pairs.push_back({T(10 + 3 * i), T(i % 5 + 1)}); m[T(10 + 3 * i)] = T(i % 5 + 1); }
        void *d = A::dcreate(pairs.data(), pairs.size());
        if (!d) { run.violation(cs, "dynamic create returned NULL for a sorted range"); return; }
        std::vector<T> queries = {T(9), T(10), T(11), T(13), T(14), T(7510), T(7511), T(7513), T(15007), T(15008), T(20000), T(50000000)};
        T fresh = T(20000);
        bool ok = true;
        for (size_t stage = 0; stage < ops.size() && ok; ++stage) {
            auto &op = ops[stage];
            if (op.kind == 0) { A::dinsert(d, op.key, op.val); m[op.key] = op.val; } else if (op.kind == 1) { A::derase(d, op.key); m.erase(op.key); }
            run.add(cn.steps);
            ok = check_dynamic_state(d, m, queries, cs + " after_stage_op=" + std::to_string(stage), false);
            if (!ok || stage + 1 == ops.size()) break;
            for (int i = 0; i < 586; ++i) { fresh = T(fresh + 5); A::dinsert(d, fresh, T(3)); m[fresh] = T(3); }   // flushes the buffer once
            run.add(cn.merges);
            ok = check_dynamic_state(d, m, queries, cs + " after_flush=" + std::to_string(stage), false);
        }
        if (ok) check_dynamic_state(d, m, queries, cs + " final", true);
        A::ddestroy(d);
    }
    void deep3_all(int first) {
        std::vector<Op> alphabet = {{0, T(13), T(77)}, {1, T(13), 0}, {0, T(7510), T(78)}, {1, T(7510), 0}, {2, 0, 0}};   // kind 2: no operation
        for (size_t b = 0; b < alphabet.size(); ++b) for (size_t c = 0; c < alphabet.size(); ++c) {
            if (run.deadline_passed()) return;
            std::vector<Op> ops = {alphabet[first], alphabet[b], alphabet[c]};
            if (first == 0 && b == 1 && c == 4) run.sample(case_of("init=deep3 ops=" + ops_str(ops)));
            deep3_history(ops);
        }
    }
};

struct Task { int type, kind, palette, len, first; int D, first_op, init_id; ks::FamilySpec spec; size_t eps; };

template<typename T> void run_task(Run &run, Cn &cn, const Task &t, bool thorough) {
    Explorer<T> ex{run, cn};
    std::vector<size_t> epss = {1, 2, 3, 64, 4096};
    if (t.kind == 0) ex.static_small(t.palette, t.len, t.first, epss);
    else if (t.kind == 1) {
        // block grammar, one task per first block id
        for (long b1 = 0; b1 < ks::NUM_BLOCK_IDS && !run.deadline_passed(); ++b1) {
            if (!ks::block_id_canonical(b1)) continue;
            ks::FamilySpec s = t.spec; s.blocks.push_back(b1);
            ex.static_family(s, t.eps);
        }
    } else if (t.kind == 6) {
        // density family (about 1200 segments, several levels) for run-time epsilon 1, 2, 3, 64
        bool light = false;
#ifdef VERIF_ASAN
        light = !thorough;
#endif
        for (long w = t.first_op; w < (light ? t.first_op + 1 : 256); w += 16) for (size_t e : {size_t(1), size_t(2), size_t(3), size_t(64), size_t(300), size_t(1000)}) {
            if (light && e != 1 && e != 64) continue;
            if (run.deadline_passed()) return;
            ks::FamilySpec s; s.kind = "density"; s.chunks = 1; s.rep = e >= 300 ? 30 : e >= 64 ? 60 : 300; s.width = 4; s.word = w;
            ex.static_family(s, e);
        }
    } else if (t.kind == 2) {
        // dynamic: initial states: 0 create_empty; 1.. every array of <= 3 sorted pairs over the 4 keys (repeated keys: later value differs)
        auto keys = ex.dyn_keys();
        std::vector<std::vector<std::pair<T, T>>> inits; inits.push_back({});
        for (int len = 1; len <= 3; ++len) for (int f = 0; f < 4; ++f)
            mc::for_each_multiset(4, len, f, [&](const std::vector<int> &idx) { std::vector<std::pair<T, T>> v; for (int i = 0; i < len; ++i) v.emplace_back(keys[idx[i]], T((i > 0 && idx[i] == idx[i - 1]) ? 2 : 1)); inits.push_back(v); return true; });
        if (t.init_id == 0) ex.dynamic_bfs({}, false, 0, t.D, t.first_op, keys, "empty");
        else if (t.init_id < int(inits.size())) {
            std::string d; for (auto &p : inits[t.init_id]) d += (d.empty() ? "" : ";") + mc::key_str(p.first) + ":" + mc::key_str(p.second);
            ex.dynamic_bfs(inits[t.init_id], true, 0, t.D, t.first_op, keys, d);
        }
    } else if (t.kind == 5) {
        ex.deep3_all(t.first_op);
    } else if (t.kind == 4) {
        ex.huge_bfs(t.D, t.first_op);
    } else {
        // deep state: 600 bulk-loaded pairs (land in level 4) + 585 fillers (buffer full): the next insert merges
        std::vector<std::pair<T, T>> pairs; for (size_t i = 0; i < 600; ++i) pairs.emplace_back(T(5 + 2 * i), T(i % 3 + 1));
        pairs.emplace_back(T(200000), T(9));
        ex.dynamic_bfs(pairs, true, 585, t.D, t.first_op, ex.deep_keys(), "deep600+585");
        // one filler fewer: the first operation fills the buffer, possibly with a key that is also stored in level 4, and the second
        // one works on a full buffer that may already hold its key
        ex.dynamic_bfs(pairs, true, 584, t.D, t.first_op, ex.deep_keys(), "deep600+584");
    }
    (void) thorough;
}

int main(int argc, char **argv) {
    auto opt = mc::parse_args(argc, argv);
    if (opt.property != "C18" && opt.property != "C17") { fprintf(stderr, "usage: cabi --prop C18 [--tier ..] [--replay f]\n"); return 2; }
    bool thorough = opt.tier == "thorough";
    Run run(opt, "cabi");
    Cn cn(run);
    if (!opt.replay.empty()) {
        auto m = mc::parse_case(mc::json_field(mc::read_file(opt.replay), "case"));
        run.opt.write_evidence = false; run.worker_id = 0;
        std::string ty = m["type"];
        if (ty == "int32") Explorer<int32_t>{run, cn}.replay(m); else if (ty == "int64") Explorer<int64_t>{run, cn}.replay(m);
        else if (ty == "uint32") Explorer<uint32_t>{run, cn}.replay(m); else Explorer<uint64_t>{run, cn}.replay(m);
        auto v = run.sh->violations.load();
        printf("replay verdict: %s\n", v ? "VIOLATION reproduced" : "no violation");
        return v ? 1 : 0;
    }
    int N = thorough ? 8 : 6, D = thorough ? 6 : 5, Ddeep = thorough ? 4 : 3;
#ifdef VERIF_ASAN
    N = thorough ? 5 : 4; D = thorough ? 5 : 4; Ddeep = thorough ? 3 : 2;
#endif
    std::vector<Task> tasks;
    for (int ty = 0; ty < 4; ++ty) {
        for (int len = 1; len <= N; ++len) for (int p = 0; p < 4; ++p) for (int f = 0; f < 10; ++f) { Task t{}; t.type = ty; t.kind = 0; t.palette = p; t.len = len; t.first = f; tasks.push_back(t); }
        for (size_t e : std::vector<size_t>{1, 3, 64}) for (long b0 = 0; b0 < ks::NUM_BLOCK_IDS; ++b0) {
            if (!ks::block_id_canonical(b0)) continue;
            if (!thorough && (ty == 0 || ty == 2) && e == 64) continue;
            Task t{}; t.type = ty; t.kind = 1; t.eps = e; t.spec.kind = "blocks"; t.spec.rep = 1; t.spec.blocks = {b0}; tasks.push_back(t);
        }
        for (int w0 = 0; w0 < 16; ++w0) { Task t{}; t.type = ty; t.kind = 6; t.first_op = w0; tasks.push_back(t); }
        for (int first_op = 0; first_op < 12; ++first_op) {
            { Task t{}; t.type = ty; t.kind = 2; t.D = D; t.first_op = first_op; t.init_id = 0; tasks.push_back(t); }
            for (int init = 1; init < 35; ++init) { Task t{}; t.type = ty; t.kind = 2; t.D = D - 2; t.first_op = first_op; t.init_id = init; tasks.push_back(t); }
        }
        for (int first_op = 0; first_op < 18; ++first_op) { Task t{}; t.type = ty; t.kind = 3; t.D = Ddeep; t.first_op = first_op; tasks.push_back(t); }
        for (int first_op = 0; first_op < 5; ++first_op) { Task t{}; t.type = ty; t.kind = 5; t.first_op = first_op; tasks.push_back(t); }
        // huge deep state (a level owning a PGM-index with the default parameters): uint32 and int64 in the quick tier
        bool asan_build = false;
#ifdef VERIF_ASAN
        asan_build = true;
#endif
        if (!asan_build && (thorough || ty == 1 || ty == 2)) for (int first_op = 0; first_op < 10; ++first_op) { Task t{}; t.type = ty; t.kind = 4; t.D = thorough ? 2 : 1; t.first_op = first_op; tasks.push_back(t); }
    }
    std::stable_sort(tasks.begin(), tasks.end(), [](const Task &a, const Task &b) { return a.kind > b.kind; });
    run.run_tasks(tasks.size(), [&](uint64_t i) {
        if (run.deadline_passed()) return;
        auto &t = tasks[i];
        switch (t.type) { case 0: run_task<int32_t>(run, cn, t, thorough); break; case 1: run_task<int64_t>(run, cn, t, thorough); break; case 2: run_task<uint32_t>(run, cn, t, thorough); break; default: run_task<uint64_t>(run, cn, t, thorough); }
    });
    mc::Run::EvidenceExtra ev;
    ev.states_counter = "static_indexes_created"; ev.transitions_counter = "static_searches_checked"; ev.nontrivial_counter = "arrays_with_2plus_distinct_keys"; ev.eval_counter = "dynamic_steps_checked";
    ev.rule = "static part: every non-decreasing array of length 1.." + std::to_string(N) + " over four palettes for int32/int64/uint32/uint64, run-time epsilon in {1,2,3,64,4096}, all alphabet queries, plus the two-block grammar for epsilon {1,3,64} and the density family (about 1200 segments, several levels) for epsilon {1,2,3,64,300,1000}; the size in bytes reported through the C handle equals that of the C++ PGMIndex with the same Epsilon; create must return NULL exactly when the reserved value is present. "
              "dynamic part: every history of length " + std::to_string(D) + " of insert_or_assign/erase over 4 colliding keys x 2 values from create_empty, length " + std::to_string(D - 2) + " from every create() of <= 3 sorted pairs, and length " + std::to_string(Ddeep) +
              " from two deep states (create of 600 pairs + 585 / 584 inserts, so that the next / the one after the next operation finds the buffer full and merges it into level 4), every three-stage script over a three-level state (create of 5000 pairs in level 5, two buffer flushes into level 4, an insert/erase/no-op on two bulk-loaded keys before, between and after the flushes), and short histories from a huge state (create of 2^21+1 pairs, which lands in a level that owns a PGM-index with the default parameters, followed by 40 consecutive erases); after every step find, lower_bound + iterator_next, begin + iterator_next to exhaustion and size are compared with std::map. Only functions of cpgm.h are called. "
              "States = static indexes built (dynamic steps are reported as evaluations); non-trivial = at least two distinct keys.";
    ev.bounds = "N<=" + std::to_string(N) + ", dynamic depth " + std::to_string(D) + "/" + std::to_string(D - 2) + "/" + std::to_string(Ddeep);
    ev.assumptions = {"c-interface/cpgm.cpp compiled from the repository with the engine's flags", "dynamic histories are re-executed from scratch (opaque handles cannot be copied); states after a shared prefix are checked once"};
    return run.finish(ev);
}
