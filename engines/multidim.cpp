// Engine `multidim`: bounded-exhaustive exploration of MultidimensionalPGMIndex::range / contains (C13, C14) on the real code,
// at the real miss_threshold (64): small universes with enumerated multiplicity vectors (65 copies force the skip path),
// full grids with every box, grids with an enumerated window. Oracle: brute-force box filter sorted by an own Morton code.
#include "../mc/common.hpp"
#include "pgm/pgm_index.hpp"
#include "pgm/pgm_index_variants.hpp"
#include <array>
#include <tuple>

static int g_chunks = 1;   // answered to the library's omp_get_num_procs / omp_get_max_threads (chunks run sequentially)
extern "C" int omp_get_num_procs(void) noexcept { return g_chunks; }
extern "C" int omp_get_max_threads(void) noexcept { return g_chunks; }
extern "C" int omp_get_thread_num(void) noexcept { return 0; }      // pragmas are ignored in this build: every parallel region runs as a team of one
extern "C" int omp_get_num_threads(void) noexcept { return 1; }
extern "C" int omp_in_parallel(void) noexcept { return 0; }
extern "C" void omp_set_num_threads(int) noexcept {}
extern "C" int omp_get_thread_limit(void) noexcept { return 1; }

#ifdef VERIF_ASAN
extern "C" void __asan_on_error() {
    if (mc::g_run) mc::g_run->violation(mc::g_run->worker_id >= 0 ? mc::g_run->sh->slot[mc::g_run->worker_id] : "(parent)", "AddressSanitizer reported an invalid memory access");
}
extern "C" const char *__asan_default_options() { return "halt_on_error=0:detect_leaks=0:print_summary=0"; }
#endif

#include "keyspace.hpp"
using mc::Run;

struct Cn {
    int multisets, nontrivial, boxes, points_out, contains_q, skips_forced, empty_boxes, last_code_boxes;
    explicit Cn(Run &r) {
        multisets = r.counter("point_multisets_indexed"); nontrivial = r.counter("multisets_with_2plus_distinct_points"); boxes = r.counter("box_queries_checked");
        points_out = r.counter("points_enumerated_and_compared"); contains_q = r.counter("contains_queries_checked"); skips_forced = r.counter("boxes_with_more_than_64_consecutive_misses");
        empty_boxes = r.counter("boxes_containing_no_point"); last_code_boxes = r.counter("boxes_reaching_the_largest_stored_code");
    }
};

template<size_t D, typename T> using Pt = std::array<T, D>;

template<size_t D, typename T, size_t... I> auto to_tuple_impl(const Pt<D, T> &p, std::index_sequence<I...>) { return std::make_tuple(p[I]...); }
template<size_t D, typename T> auto to_tuple(const Pt<D, T> &p) { return to_tuple_impl<D, T>(p, std::make_index_sequence<D>()); }
template<size_t D, typename T, typename Tup, size_t... I> Pt<D, T> from_tuple_impl(const Tup &t, std::index_sequence<I...>) { return Pt<D, T>{T(std::get<I>(t))...}; }
template<size_t D, typename T, typename Tup> Pt<D, T> from_tuple(const Tup &t) { return from_tuple_impl<D, T>(t, std::make_index_sequence<D>()); }

// own Morton code: bit b of coordinate i goes to position b*D + i
template<size_t D, typename T> T my_morton(const Pt<D, T> &p) {
    T z = 0;
    for (size_t i = 0; i < D; ++i) for (size_t b = 0; b < sizeof(T) * 8 / D; ++b) if ((p[i] >> b) & 1) z |= T(1) << (b * D + i);
    return z;
}
template<size_t D, typename T> std::string pt_str(const Pt<D, T> &p) { std::string s; for (size_t i = 0; i < D; ++i) { if (i) s += '.'; s += std::to_string(p[i]); } return s; }
template<size_t D, typename T> Pt<D, T> parse_pt(const std::string &s) { Pt<D, T> p{}; auto v = mc::split(s, '.'); for (size_t i = 0; i < D && i < v.size(); ++i) p[i] = T(strtoull(v[i].c_str(), nullptr, 10)); return p; }

template<size_t D, typename T, size_t E, size_t R = 4>
struct Explorer {
    using Index = pgm::MultidimensionalPGMIndex<D, T, E, R>;
    using P = Pt<D, T>;
    Run &run; Cn &cn; int prop; const char *cfg;
    int input_order = 0;   // 0: enumeration order, 1: lexicographic, 2: reverse lexicographic, 3: range of std::pair (D = 2), 4: tuples of a narrower unsigned type

    // spec of a multiset: "cells=<pt>*<mult>;<pt>*<mult>;..."
    static std::string spec_str(const std::vector<std::pair<P, int>> &cells) {
        std::string s;
        for (auto &c : cells) if (c.second > 0) { if (!s.empty()) s += ';'; s += pt_str<D, T>(c.first) + "*" + std::to_string(c.second); }
        return s.empty() ? "-" : s;
    }
    static std::vector<std::pair<P, int>> parse_spec(const std::string &s) {
        std::vector<std::pair<P, int>> out;
        if (s == "-") return out;
        for (auto &t : mc::split(s, ';')) { auto star = t.find('*'); out.emplace_back(parse_pt<D, T>(t.substr(0, star)), atoi(t.c_str() + star + 1)); }
        return out;
    }
    std::string case_of(const std::string &spec, const std::string &q) const { return std::string("cfg=") + cfg + " order=" + std::to_string(input_order) + " cells=" + spec + " " + q; }

    struct Built { Index *idx; std::vector<P> pts; std::vector<std::pair<T, P>> sorted; };

    bool build(const std::vector<std::pair<P, int>> &cells, const std::string &spec, Built &b) {
        b.pts.clear();
        for (auto &c : cells) for (int i = 0; i < c.second; ++i) b.pts.push_back(c.first);
        if (b.pts.empty()) return false;
        run.set_case(case_of(spec, "(build)"));
        // the order in which the caller supplies the points is part of the input: as enumerated, lexicographically sorted, or reversed
        std::vector<P> ordered = b.pts;
        if (input_order == 1) std::sort(ordered.begin(), ordered.end());
        else if (input_order == 2) { std::sort(ordered.begin(), ordered.end()); std::reverse(ordered.begin(), ordered.end()); }
        std::vector<typename Index::value_type> tuples;
        for (auto &p : ordered) tuples.push_back(to_tuple<D, T>(p));
        try {
            if constexpr (D == 2) {
                if (input_order == 3) { std::vector<std::pair<T, T>> prs; for (auto &p : ordered) prs.emplace_back(p[0], p[1]); b.idx = new Index(prs.begin(), prs.end()); }   // a range of std::pair is a documented input too
                else b.idx = new Index(tuples.begin(), tuples.end());
            } else if (input_order != 4) b.idx = new Index(tuples.begin(), tuples.end());
            if (input_order == 4) {   // tuples holding a narrower unsigned type (the constructor is a template over the iterator): same points, same index
                using N = uint32_t;   // 32-bit coordinates handed to a 64-bit index; for a 32-bit index this order is the same as order 0
                bool fits = true;
                for (auto &p : ordered) for (size_t i = 0; i < D; ++i) if (p[i] > T(std::numeric_limits<N>::max())) fits = false;
                if (!fits) { if (!b.idx) b.idx = new Index(tuples.begin(), tuples.end()); }
                else {
                    delete b.idx; b.idx = nullptr;
                    std::vector<decltype(to_tuple<D, N>(Pt<D, N>{}))> nt;
                    for (auto &p : ordered) { Pt<D, N> q; for (size_t i = 0; i < D; ++i) q[i] = N(p[i]); nt.push_back(to_tuple<D, N>(q)); }
                    b.idx = new Index(nt.begin(), nt.end());
                }
            }
        }
        catch (const std::exception &e) { run.violation(case_of(spec, ""), std::string("construction over encodable points threw: ") + e.what()); return false; }
        b.sorted.clear();
        for (auto &p : b.pts) b.sorted.emplace_back(my_morton<D, T>(p), p);
        std::sort(b.sorted.begin(), b.sorted.end());
        run.add(cn.multisets);
        if (b.sorted.front().first != b.sorted.back().first) run.add(cn.nontrivial);
        return true;
    }

    void check_box(Built &b, const P &mn, const P &mx, const std::string &spec) {
        std::string q = "box=" + pt_str<D, T>(mn) + ":" + pt_str<D, T>(mx);
        std::string cs = case_of(spec, q);
        run.set_case(cs);
        run.add(cn.boxes);
        // expected: brute-force filter in Morton order, with multiplicity
        std::vector<P> want;
        size_t run_miss = 0, max_miss = 0; T zmin = my_morton<D, T>(mn), zmax = my_morton<D, T>(mx);
        for (auto &e : b.sorted) {
            bool in = true;
            for (size_t i = 0; i < D; ++i) if (e.second[i] < mn[i] || e.second[i] > mx[i]) in = false;
            if (in) { want.push_back(e.second); run_miss = 0; }
            else if (e.first >= zmin && e.first <= zmax) { ++run_miss; max_miss = std::max(max_miss, run_miss); }
        }
        if (max_miss > 64) run.add(cn.skips_forced);
        if (want.empty()) run.add(cn.empty_boxes);
        if (zmax >= b.sorted.back().first) run.add(cn.last_code_boxes);
        std::vector<P> got;
        size_t steps = 0, limit = b.pts.size() + 2;
        try {
            auto e = b.idx->end();
            for (auto it = b.idx->range(to_tuple<D, T>(mn), to_tuple<D, T>(mx)); it != e; ++it) {
                got.push_back(from_tuple<D, T>(*it));
                if (++steps > limit) { run.violation(cs, "range iteration does not terminate within n+2 steps"); return; }
            }
        } catch (const std::exception &e) { run.violation(cs, std::string("range() threw for min <= max: ") + e.what()); return; }
        run.add(cn.points_out, got.size());
        // the same box traversed with the post-increment form (every third box, and every box of at most 8 points): it++ returns the
        // position it was at and advances the iterator itself
        if (prop != 17 && (want.size() <= 8 || (zmin + zmax) % 3 == 0)) {
            try {
                auto e = b.idx->end(); size_t k = 0;
                auto it = b.idx->range(to_tuple<D, T>(mn), to_tuple<D, T>(mx));
                while (it != e) {
                    auto old = it++;
                    if (k >= got.size() || from_tuple<D, T>(*old) != got[k]) { run.violation(cs, "traversal with it++ differs from traversal with ++it at element #" + std::to_string(k)); return; }
                    if (++k > limit) { run.violation(cs, "range iteration with it++ does not terminate within n+2 steps"); return; }
                }
                if (k != got.size()) { run.violation(cs, "traversal with it++ yields " + std::to_string(k) + " points, with ++it " + std::to_string(got.size())); return; }
            } catch (const std::exception &e) { run.violation(cs, std::string("range() threw for min <= max: ") + e.what()); return; }
        }
        if (prop == 17) return;
        if (got != want) {
            size_t i = 0; while (i < got.size() && i < want.size() && got[i] == want[i]) ++i;
            std::string detail = "range yields " + std::to_string(got.size()) + " points, brute force says " + std::to_string(want.size()) + "; first difference at #" + std::to_string(i);
            if (i < want.size()) detail += " (expected " + pt_str<D, T>(want[i]) + (i < got.size() ? ", got " + pt_str<D, T>(got[i]) : ", got end") + ")";
            else if (i < got.size()) detail += " (unexpected " + pt_str<D, T>(got[i]) + ")";
            run.violation(cs, detail);
        }
    }

    // C17 only: the documented k-nearest-neighbour query is an operation of the class too; only memory accesses are judged here
    void check_knn(Built &b, const std::string &spec) {
        if (prop != 17 || b.pts.empty()) return;
        size_t n = b.pts.size();
        std::vector<P> probes = {b.sorted.front().second, b.sorted.back().second, b.sorted[n / 2].second};
        { P far = b.sorted.back().second; for (size_t d = 0; d < D; ++d) far[d] = T(far[d] + 3); probes.push_back(far); P zero{}; probes.push_back(zero); }
        for (auto &q : probes) for (size_t k : {size_t(1), size_t(2), std::min<size_t>(n, 5), std::min<size_t>(n, 70), n}) {
            if (k < 1 || k > n) continue;
            run.set_case(case_of(spec, "knn=" + pt_str<D, T>(q) + " k=" + std::to_string(k)));
            run.add(cn.contains_q);
            try { auto r = b.idx->knn(to_tuple<D, T>(q), uint32_t(k)); volatile size_t sink = r.size(); (void) sink; } catch (const std::exception &) {}
        }
    }

    void check_contains(Built &b, const P &p, const std::string &spec) {
        std::string cs = case_of(spec, "contains=" + pt_str<D, T>(p));
        run.set_case(cs);
        run.add(cn.contains_q);
        bool want = false;
        for (auto &x : b.pts) if (x == p) { want = true; break; }
        // two other indexes of the same type are alive and asked about the same point just before: one that stores it, one that does not
        static Index *decoy_all = nullptr, *decoy_none = nullptr; static std::vector<P> all_pts;
        if (!decoy_all) {
            std::vector<typename Index::value_type> tu; P far{}; for (size_t d = 0; d < D; ++d) far[d] = T(77 + d);
            std::vector<typename Index::value_type> tn = {to_tuple<D, T>(far)};
            decoy_none = new Index(tn.begin(), tn.end());
            std::vector<T> ax; for (T v = 0; v < (D <= 2 ? 12 : D == 3 ? 6 : 4); ++v) ax.push_back(v);
            for_cells(ax, [&](const P &pt) { all_pts.push_back(pt); tu.push_back(to_tuple<D, T>(pt)); });
            decoy_all = new Index(tu.begin(), tu.end());
        }
        bool in_all = std::find(all_pts.begin(), all_pts.end(), p) != all_pts.end();
        bool d1 = decoy_all->contains(to_tuple<D, T>(p));
        bool got = b.idx->contains(to_tuple<D, T>(p));
        bool d2 = decoy_none->contains(to_tuple<D, T>(p));
        bool got2 = b.idx->contains(to_tuple<D, T>(p));
        if (prop == 17) return;
        bool far_hit = true; for (size_t d = 0; d < D; ++d) if (p[d] != T(77 + d)) far_hit = false;
        if (d1 != in_all || d2 != far_hit) { run.violation(cs, "a second index alive at the same time answers contains() wrongly for this point"); return; }
        if (got != want || got2 != want) run.violation(cs, std::string("contains() returned ") + ((got != want ? got : got2) ? "true for an absent point" : "false for a stored point") + (got == want ? " (second call, after another index was asked)" : ""));
    }

    // all boxes over the given per-axis coordinate values
    template<typename F> void for_boxes(const std::vector<T> &axis, F &&f, long only_first_lo = -1) {
        size_t m = axis.size();
        std::vector<std::pair<T, T>> ivals;
        for (size_t a = 0; a < m; ++a) for (size_t c = a; c < m; ++c) ivals.emplace_back(axis[a], axis[c]);
        std::array<size_t, D> sel{};
        for (;;) {
            P mn, mx;
            for (size_t i = 0; i < D; ++i) { mn[i] = ivals[sel[i]].first; mx[i] = ivals[sel[i]].second; }
            if (only_first_lo < 0 || mn[0] == T(only_first_lo)) f(mn, mx);
            size_t i = 0;
            while (i < D && ++sel[i] == ivals.size()) { sel[i] = 0; ++i; }
            if (i == D) break;
        }
    }
    // all cells over the given per-axis values
    template<typename F> void for_cells(const std::vector<T> &axis, F &&f) {
        std::array<size_t, D> sel{};
        for (;;) {
            P p; for (size_t i = 0; i < D; ++i) p[i] = axis[sel[i]];
            f(p);
            size_t i = 0;
            while (i < D && ++sel[i] == axis.size()) { sel[i] = 0; ++i; }
            if (i == D) break;
        }
    }

    void run_queries(Built &b, const std::vector<T> &box_axis, const std::vector<T> &contains_axis, const std::string &spec, long only_first_lo = -1) {
        if (prop == 13 || prop == 17) for_boxes(box_axis, [&](const P &mn, const P &mx) { check_box(b, mn, mx, spec); }, only_first_lo);
        if ((prop == 14 || prop == 17) && only_first_lo <= 0) for_cells(contains_axis, [&](const P &p) { check_contains(b, p, spec); });
    }

    // family (a): cells = axis^D, multiplicities from mults, first `fixed.size()` digits given (task split)
    void family_mult(const std::vector<T> &axis, const std::vector<int> &mults, const std::vector<int> &fixed) {
        std::vector<P> cells;
        for_cells(axis, [&](const P &p) { cells.push_back(p); });
        size_t C = cells.size();
        std::vector<int> digit(C, 0);
        for (size_t i = 0; i < fixed.size(); ++i) digit[i] = fixed[i];
        std::vector<T> box_axis = axis, cont_axis = axis;
        T top = (T(1) << (sizeof(T) * 8 / D - 1)) - 1;
        cont_axis.push_back(axis.back() + 1); cont_axis.push_back(top);
        if (axis.front() > 0) cont_axis.push_back(axis.front() - 1);
        bool sampled = false;
        for (;;) {
            std::vector<std::pair<P, int>> spec_cells;
            for (size_t i = 0; i < C; ++i) spec_cells.emplace_back(cells[i], mults[digit[i]]);
            std::string spec = spec_str(spec_cells);
            for (input_order = 0; input_order < 5; ++input_order) {
                if (input_order == 3 && D != 2) continue;
                Built b{};
                if (build(spec_cells, spec, b)) {
                    if (!sampled && digit[C - 1] == 2 && digit[C - 2] == 1) { run.sample(case_of(spec, "*all boxes over the axis values*")); sampled = true; }
                    if (input_order == 0) { run_queries(b, box_axis, cont_axis, spec); check_knn(b, spec); }
                    else {   // other input orders: the index must be the same, so a thin query slice suffices
                        if (prop == 13 || prop == 17) { P mn, mx; for (size_t i = 0; i < D; ++i) { mn[i] = box_axis.front(); mx[i] = box_axis.back(); } check_box(b, mn, mx, spec); }
                        if (prop == 14 || prop == 17) for (auto &c : spec_cells) check_contains(b, c.first, spec);
                    }
                    delete b.idx;
                }
            }
            input_order = 0;
            if (run.deadline_passed()) return;
            size_t i = fixed.size();
            while (i < C && ++digit[i] == int(mults.size())) { digit[i] = 0; ++i; }
            if (i >= C) break;
        }
    }

    // family (b): full grid G^D, all boxes whose first-axis lower end is `lo0`
    void family_grid(T G, long lo0, const std::vector<std::pair<P, int>> &window = {}) {
        std::vector<T> axis; for (T v = 0; v < G; ++v) axis.push_back(v);
        std::vector<std::pair<P, int>> cells;
        for_cells(axis, [&](const P &p) {
            int mult = 1;
            for (auto &w : window) if (w.first == p) mult = w.second;
            cells.emplace_back(p, mult);
        });
        std::string spec = "grid" + std::to_string(G);
        for (auto &w : window) spec += ";" + pt_str<D, T>(w.first) + "*" + std::to_string(w.second);
        input_order = (lo0 % 4 == 3) ? 4 : int(lo0 % 4);   // the grid's boxes are split over tasks by lo0: vary the input order across them
        Built b{};
        if (!build(cells, spec, b)) { input_order = 0; return; }
        if (lo0 == 0) run.sample(case_of(spec, "*all boxes*"));
        std::vector<T> cont_axis = axis; cont_axis.push_back(G); cont_axis.push_back((T(1) << (sizeof(T) * 8 / D - 1)) - 1);
        run_queries(b, axis, cont_axis, spec, lo0);
        delete b.idx;
        input_order = 0;
    }

    // family (d): every length of a run of consecutive misses. One out-of-box cell with multiplicity m1 (and a second one with m2 after
    // an in-box hit) sits between in-box points in Morton order; further stored points follow the box. D = 2 only.
    void family_missrun(int m1, int m2, bool high = false) {
        if constexpr (D == 2) {
            // `high`: the whole constellation is translated by a power of two per coordinate so that its Morton codes use the top bits
            // of the code word (the translation keeps the relative Morton order: the low three bits per coordinate are untouched)
            const T B = high ? T(T(1) << (sizeof(T) * 8 / D - 2)) : T(0);
            std::vector<std::pair<P, int>> cells = {{P{1, 0}, 1}, {P{0, 1}, m1}, {P{1, 1}, 3}, {P{2, 0}, 1}, {P{3, 0}, m2}, {P{2, 1}, 2}, {P{3, 1}, 1}, {P{0, 2}, 2}, {P{2, 2}, 1}, {P{5, 5}, 1}};
            if (m2 < 0) cells.resize(2);   // nothing stored after the miss run: BIGMIN lies beyond every stored code
            for (auto &c : cells) for (size_t d = 0; d < D; ++d) c.first[d] = T(c.first[d] + B);
            std::string spec = spec_str(cells);
            Built b{};
            if (!build(cells, spec, b)) return;
            if (m1 == 255 && m2 == 0) run.sample(case_of(spec, "*boxes around the miss run*"));
            if (prop == 13 || prop == 17) {
                auto Q = [&](T x, T y) { return P{T(x + B), T(y + B)}; };
                check_box(b, Q(1, 0), Q(1, 1), spec);   // code 1 and 3 inside, the run at code 2 outside
                check_box(b, Q(1, 0), Q(2, 1), spec);   // both runs inside the Morton interval, partly outside the box
                check_box(b, Q(0, 0), Q(3, 1), spec);
                check_box(b, Q(2, 0), Q(2, 2), spec);
                check_box(b, Q(1, 0), Q(5, 5), spec);
            }
            if (prop == 14 || prop == 17) for (T x = 0; x < 4; ++x) for (T y = 0; y < 3; ++y) check_contains(b, P{T(x + B), T(y + B)}, spec);
            check_knn(b, spec);
            delete b.idx;
        }
    }

    // family (f): a box that is 2^h wide in dimension 0 and two cells thick in dimension 1, with a run of m misses that is the last thing
    // below x = 2^h on the Z curve: BIGMIN must jump across the bit of weight 2^h, for every h the coordinate type can hold (so the
    // deciding bit of the Morton code is every multiple of D up to the top of the code word).
    void family_widebox(int h, int m, int variant) {
        const T X = T(T(1) << h);
        P in0{}, miss{}, in1{}, in2{}, beyond{}, mn{}, mx{};
        in0[0] = 1; in0[1] = 1;
        miss[0] = T(X - 1); miss[1] = variant == 0 ? 3 : 2;
        in1[0] = X; in1[1] = 0;
        in2[0] = T(X + 3); in2[1] = 1;
        beyond[0] = T(X + 4); beyond[1] = 0;
        mx[0] = T(X + 3); mx[1] = 1;
        std::vector<std::pair<P, int>> cells = {{in0, 1}, {miss, m}, {in1, variant == 2 ? 0 : 1}, {in2, 2}, {beyond, 1}};
        if (variant == 2) { P alt{}; alt[0] = T(X + 2); alt[1] = 0; cells.push_back({alt, 1}); }   // the first hit beyond the jump is not the corner of the upper half
        std::sort(cells.begin(), cells.end(), [](auto &a, auto &b) { return my_morton<D, T>(a.first) < my_morton<D, T>(b.first); });
        cells.erase(std::remove_if(cells.begin(), cells.end(), [](auto &c) { return c.second == 0; }), cells.end());
        std::string spec = spec_str(cells);
        Built b{};
        if (!build(cells, spec, b)) return;
        if (h == 5 && m == 65 && variant == 0) run.sample(case_of(spec, "*wide thin boxes*"));
        if (prop == 13 || prop == 17) {
            check_box(b, mn, mx, spec);
            P mn2 = mn; mn2[0] = 1; check_box(b, mn2, mx, spec);
            P mx2 = mx; mx2[0] = T(X + 4); check_box(b, mn, mx2, spec);
        }
        if (prop == 14 || prop == 17) { check_contains(b, in1, spec); check_contains(b, miss, spec); P absent = in1; absent[1] = 1; check_contains(b, absent, spec); }
        check_knn(b, spec);
        delete b.idx;
    }

    // family (g): point sets whose sorted Morton codes are exactly the keys of a member of the one-dimensional density family (clusters
    // whose spacing changes every 300 clusters): the internal index has several levels whose models use their whole error band. Every
    // stored point must be found, the decoded neighbours of the cluster ends must not.
    static P decode(T z) { P p{}; for (size_t i = 0; i < D; ++i) for (size_t bb = 0; bb < sizeof(T) * 8 / D; ++bb) if ((z >> (bb * D + i)) & 1) p[i] |= T(1) << bb; return p; }
    void family_codes(long word, long rep) {
        ks::FamilySpec fs; fs.kind = "density"; fs.chunks = 1; fs.rep = rep; fs.width = 4; fs.word = word;
        std::vector<uint64_t> keys, qs;
        if (!ks::generate_family<uint64_t>(fs, E, keys, qs)) return;
        if (keys.back() >> (sizeof(T) * 8 / D * D - D) != 0) return;   // a coordinate would be too wide for the encoder
        std::vector<std::pair<P, int>> cells;
        for (auto k : keys) cells.emplace_back(decode(T(k)), 1);
        std::string spec = "codes:" + fs.str();
        Built b{};
        b.pts.reserve(cells.size());
        std::vector<typename Index::value_type> tuples;
        for (auto &c : cells) { b.pts.push_back(c.first); tuples.push_back(to_tuple<D, T>(c.first)); }
        run.set_case(case_of(spec, "(build)"));
        try { b.idx = new Index(tuples.begin(), tuples.end()); } catch (const std::exception &e) { run.violation(case_of(spec, ""), std::string("construction threw: ") + e.what()); return; }
        for (auto &p : b.pts) b.sorted.emplace_back(my_morton<D, T>(p), p);
        std::sort(b.sorted.begin(), b.sorted.end());
        run.add(cn.multisets); run.add(cn.nontrivial);
        if (word == 27) run.sample(case_of(spec, "*contains for every stored point and the neighbours of the cluster ends*"));
        if (prop == 14 || prop == 17) {
            std::set<uint64_t> present(keys.begin(), keys.end());
            for (auto k : keys) {
                run.add(cn.contains_q);
                P q = decode(T(k));
                run.set_case(case_of(spec, "contains=" + pt_str<D, T>(q)));
                if (!b.idx->contains(to_tuple<D, T>(q))) { run.violation(case_of(spec, "contains=" + pt_str<D, T>(q)), "contains() is false for a stored point"); break; }
                for (uint64_t nb : {k + 1, k - 1}) if (!present.count(nb)) {
                    run.add(cn.contains_q);
                    P a = decode(T(nb));
                    if (b.idx->contains(to_tuple<D, T>(a))) { run.violation(case_of(spec, "contains=" + pt_str<D, T>(a)), "contains() is true for a point that is not stored"); return; }
                }
            }
        }
        if (prop == 13 || prop == 17) {
            P lo{}, hi{}; for (size_t d = 0; d < D; ++d) { lo[d] = 0; hi[d] = T((T(1) << (sizeof(T) * 8 / D - 1)) - 1); }
            check_box(b, lo, hi, spec);                                   // everything
            P mid = decode(T(keys[keys.size() / 2]));
            for (size_t d = 0; d < D; ++d) { lo[d] = mid[d] > 20 ? T(mid[d] - 20) : 0; hi[d] = T(mid[d] + 20); }
            check_box(b, lo, hi, spec);
            for (size_t d = 0; d < D; ++d) { lo[d] = 0; hi[d] = mid[d]; }
            check_box(b, lo, hi, spec);
        }
        delete b.idx;
    }

    // family (e): more than 2^15 points, so that the index over the Morton codes is built by the chunked builder with p chunks; a dense
    // grid plus `tail` far points that do not follow the trend of the last segment (and make n % p non-zero).
    void family_large(int p, int tail) {
        if constexpr (D <= 3) {
            T side = D == 2 ? 182 : 33;   // 182^2 = 33124, 33^3 = 35937
            std::vector<T> axis; for (T v = 0; v < side; ++v) axis.push_back(v);
            std::vector<std::pair<P, int>> cells;
            for_cells(axis, [&](const P &pt) { cells.emplace_back(pt, 1); });
            for (int i = 0; i < tail; ++i) { P far; for (size_t d = 0; d < D; ++d) far[d] = T(side + (D == 2 ? 200 : 60) + (D == 2 ? 37 : 9) * i + 11 * d); cells.emplace_back(far, 1); }
            std::string spec = "large:side=" + std::to_string(side) + ":tail=" + std::to_string(tail) + ":chunks=" + std::to_string(p);
            g_chunks = p;
            Built b{};
            bool ok = build(cells, spec, b);
            g_chunks = 1;
            if (!ok) return;
            if (p == 8) run.sample(case_of(spec, "*contains for every stored point, boxes around the tail*"));
            if (prop == 14 || prop == 17) {
                for (auto &c : cells) check_contains(b, c.first, spec);
                for (int i = 0; i < tail; ++i) { P q = cells[cells.size() - 1 - i].first; q[0] = T(q[0] + 1); check_contains(b, q, spec); }
            }
            if (prop == 13 || prop == 17) {
                P lo{}, hi{}; for (size_t d = 0; d < D; ++d) { lo[d] = T(side - 3); hi[d] = T(side + (D == 2 ? 200 : 60) + (D == 2 ? 37 : 9) * tail + 40); }
                check_box(b, lo, hi, spec);
                for (size_t d = 0; d < D; ++d) { lo[d] = T(side + (D == 2 ? 100 : 30)); }
                check_box(b, lo, hi, spec);
                for (size_t d = 0; d < D; ++d) { lo[d] = 0; hi[d] = 5; }
                check_box(b, lo, hi, spec);
                for (size_t d = 0; d < D; ++d) { lo[d] = T(side - 2); hi[d] = T(side - 1); }
                check_box(b, lo, hi, spec);
            }
            delete b.idx;
        }
    }

    void replay(const std::map<std::string, std::string> &m) {
        std::string spec = m.at("cells");
        if (m.count("order")) input_order = atoi(m.at("order").c_str());
        if (spec.rfind("codes:", 0) == 0) { auto fs = ks::FamilySpec::parse(spec.substr(6)); family_codes(fs.word, fs.rep); return; }
        if (spec.rfind("large:", 0) == 0) { auto parts = mc::split(spec, ':'); family_large(atoi(parts[3].c_str() + 7), atoi(parts[2].c_str() + 5)); return; }
        std::vector<std::pair<P, int>> cells;
        if (spec.rfind("grid", 0) == 0) {
            auto parts = mc::split(spec, ';');
            T G = T(atoi(parts[0].c_str() + 4));
            std::vector<T> axis; for (T v = 0; v < G; ++v) axis.push_back(v);
            for_cells(axis, [&](const P &p) { cells.emplace_back(p, 1); });
            for (size_t i = 1; i < parts.size(); ++i) { auto star = parts[i].find('*'); P p = parse_pt<D, T>(parts[i].substr(0, star)); for (auto &c : cells) if (c.first == p) c.second = atoi(parts[i].c_str() + star + 1); }
        } else cells = parse_spec(spec);
        Built b{};
        if (!build(cells, spec, b)) { printf("nothing to build\n"); return; }
        printf("replay: cfg=%s n=%zu\n", cfg, b.pts.size());
        if (m.count("box")) { auto v = mc::split(m.at("box"), ':'); check_box(b, parse_pt<D, T>(v[0]), parse_pt<D, T>(v[1]), spec); }
        if (m.count("contains")) check_contains(b, parse_pt<D, T>(m.at("contains")), spec);
        delete b.idx;
    }
};

struct Task { int cfg; int kind; std::vector<int> fixed; int axis_id; long G; long lo0; std::vector<int> window_digits; };

struct CfgEntry {
    const char *name; int tier; size_t D;
    void (*run)(Run &, Cn &, int prop, const Task &);
    void (*replay)(Run &, Cn &, int prop, const std::map<std::string, std::string> &);
};

template<size_t D, typename T> std::vector<T> axis_values(int id) {
    if (id == 0) return D == 2 ? std::vector<T>{0, 1, 2} : std::vector<T>{0, 1};
    if (id == 1) return D == 2 ? std::vector<T>{1, 3, 4} : std::vector<T>{2, 5};
    T top = (T(1) << (sizeof(T) * 8 / D - 1)) - 1;
    return D == 2 ? std::vector<T>{0, T(top - 1), top} : std::vector<T>{0, top};
}

template<size_t D, typename T, size_t E, size_t R = 4>
struct Thunk {
    static const char *&name() { static const char *n = ""; return n; }
    static void run(Run &r, Cn &c, int prop, const Task &t) {
        Explorer<D, T, E, R> ex{r, c, prop, name()};
        if (t.kind == 5) { ex.family_large(int(t.G), int(t.lo0)); return; }
        if (t.kind == 7) { ex.family_codes(t.G, t.lo0); return; }
        if (t.kind == 6) {
            for (int h = 3; h <= int(sizeof(T) * 8 / D) - 2; ++h) for (int m : {64, 65, 66, 130}) for (int v = 0; v < 3; ++v) { ex.family_widebox(h, m, v); if (r.deadline_passed()) return; }
            return;
        }
        if (t.kind == 3) {
            // lo0 selects the slice: single runs of every length 1..600, or every split of a set of critical totals into two runs
            if (t.lo0 == 0) { for (int m = int(t.G); m < int(t.G) + 50 && m <= 600; ++m) { ex.family_missrun(m, 0); if (m % 5 == 0 || (m >= 60 && m <= 70)) { ex.family_missrun(m, 0, true); ex.family_missrun(m, -1); } if (r.deadline_passed()) return; } }
            else for (int total : {63, 64, 65, 66, 127, 128, 129, 130, 191, 192, 193, 255, 256, 257, 258, 319, 320, 321, 511, 512, 513}) for (int m1 = int(t.G); m1 <= total; m1 += 16) { ex.family_missrun(m1, total - m1); if (r.deadline_passed()) return; }
            return;
        }
        if (t.kind == 4) { ex.family_mult(axis_values<D, T>(0), {0, 1, 2, 65, 130}, t.fixed); return; }
        if (t.kind == 0) ex.family_mult(axis_values<D, T>(t.axis_id), {0, 1, 65}, t.fixed);
        else if (t.kind == 1) ex.family_grid(T(t.G), t.lo0);
        else {
            // window of 3^D cells starting at (G/2-1,...), pattern digits {removed, x1, x2}
            std::vector<std::pair<Pt<D, T>, int>> window;
            size_t wi = 0;
            std::array<size_t, D> sel{};
            for (;;) {
                Pt<D, T> p; for (size_t i = 0; i < D; ++i) p[i] = T(t.G / 2 - 1 + sel[i]);
                window.emplace_back(p, t.window_digits[wi++]);
                size_t i = 0; while (i < D && ++sel[i] == 3) { sel[i] = 0; ++i; }
                if (i == D) break;
            }
            ex.family_grid(T(t.G), t.lo0, window);
        }
    }
    static void replay(Run &r, Cn &c, int prop, const std::map<std::string, std::string> &m) { Explorer<D, T, E, R>{r, c, prop, name()}.replay(m); }
};
#define CFG(NAME, TIER, D, T, E) [] { Thunk<D, T, E>::name() = NAME; return CfgEntry{NAME, TIER, D, &Thunk<D, T, E>::run, &Thunk<D, T, E>::replay}; }()
#define CFGR(NAME, TIER, D, T, E, R) [] { Thunk<D, T, E, R>::name() = NAME; return CfgEntry{NAME, TIER, D, &Thunk<D, T, E, R>::run, &Thunk<D, T, E, R>::replay}; }()

int main(int argc, char **argv) {
    auto opt = mc::parse_args(argc, argv);
    int prop = opt.property.size() == 3 ? atoi(opt.property.c_str() + 1) : 0;
    if (prop != 13 && prop != 14 && prop != 17) { fprintf(stderr, "usage: multidim --prop C13|C14 [--tier ..] [--replay f]\n"); return 2; }
    bool thorough = opt.tier == "thorough";
    Run run(opt, "multidim");
    Cn cn(run);
    std::vector<CfgEntry> cfgs = {
        CFG("md<2,u32,1>", 0, 2, uint32_t, 1), CFG("md<2,u32,4>", 0, 2, uint32_t, 4), CFG("md<2,u64,16>", 0, 2, uint64_t, 16), CFG("md<3,u32,1>", 0, 3, uint32_t, 1),
        CFG("md<3,u64,4>", 0, 3, uint64_t, 4), CFG("md<4,u32,1>", 0, 4, uint32_t, 1), CFG("md<4,u64,1>", 0, 4, uint64_t, 1), CFG("md<2,u32,16>", 1, 2, uint32_t, 16), CFG("md<2,u64,1>", 1, 2, uint64_t, 1), CFG("md<2,u32,64>", 2, 2, uint32_t, 64), CFG("md<2,u64,32>", 2, 2, uint64_t, 32), CFGR("md<2,u64,1,40>", 3, 2, uint64_t, 1, 40), CFGR("md<3,u32,2,33>", 3, 3, uint32_t, 2, 33),
    };
    // self-check of the harness's Morton code against the library's on a few points (harness error, never a violation)
    {
        using M2 = mortonnd::MortonNDBmi<2, uint32_t>; using M3 = mortonnd::MortonNDBmi<3, uint64_t>;
        for (uint32_t x : {0u, 1u, 5u, 1000u, 32767u}) for (uint32_t y : {0u, 2u, 7u, 32767u})
            if (M2::Encode(x, y) != my_morton<2, uint32_t>({x, y})) { fprintf(stderr, "harness Morton code differs from the library's\n"); return 2; }
        for (uint64_t x : {0ull, 3ull, 1ull << 19}) for (uint64_t y : {1ull, 1ull << 10}) for (uint64_t z : {0ull, 9ull})
            if (M3::Encode(x, y, z) != my_morton<3, uint64_t>({x, y, z})) { fprintf(stderr, "harness Morton code differs from the library's\n"); return 2; }
    }

    if (!opt.replay.empty()) {
        auto m = mc::parse_case(mc::json_field(mc::read_file(opt.replay), "case"));
        run.opt.write_evidence = false; run.worker_id = 0;
        for (auto &c : cfgs) if (m["cfg"] == c.name) {
            c.replay(run, cn, prop, m);
            auto v = run.sh->violations.load();
            printf("replay verdict: %s\n", v ? "VIOLATION reproduced" : "no violation");
            return v ? 1 : 0;
        }
        fprintf(stderr, "unknown cfg\n"); return 2;
    }

    bool asan = false;
#ifdef VERIF_ASAN
    asan = true;
#endif
    std::vector<Task> tasks;
    for (size_t c = 0; c < cfgs.size(); ++c) {
        if (cfgs[c].tier == 1 && !thorough) continue;
        size_t D = cfgs[c].D;
        if (cfgs[c].tier == 3) {   // EpsilonRecursive above the linear-scan threshold: the routing takes the binary-search path; large inputs only
            for (long p : {1L, 8L}) for (long tail : {7L, 19L}) { Task t{int(c), 5, {}, 0, p, tail, {}}; tasks.push_back(t); }
            if (D == 2) for (long m = 1; m <= 600; m += 200) { Task t{int(c), 3, {}, 0, m, 0, {}}; tasks.push_back(t); }
            for (long w : (thorough ? std::vector<long>{0, 27, 39, 57, 78, 114, 141, 177, 201, 228, 255} : std::vector<long>{27, 57, 114, 228})) { Task t{int(c), 7, {}, 0, w, 300, {}}; tasks.push_back(t); }
            continue;
        }
        // (g) Morton codes taken from the one-dimensional density family
        if (D <= 3 && !asan) for (long w : (thorough ? std::vector<long>{27, 57, 114, 228} : std::vector<long>{27, 228})) { Task t{int(c), 7, {}, 0, w, 300, {}}; tasks.push_back(t); }
        if (cfgs[c].tier == 2 && !thorough) {   // Epsilon 32 / 64: quick tier runs only the miss-run family
            for (long m = 1; m <= 600; m += 50) { Task t{int(c), 3, {}, 0, m, 0, {}}; tasks.push_back(t); }
            if (!asan) for (long off = 0; off < 16; ++off) { Task t{int(c), 3, {}, 0, off, 1, {}}; tasks.push_back(t); }
            continue;
        }
        // (a) multiplicity vectors {0,1,65}^cells over axis^D; split by the first two digits
        if (D <= 3)
            for (int axis_id = 0; axis_id < 3; ++axis_id) {
                // quick: the small axis for every configuration, all three for the first 2D one, and the axis that reaches the largest
                // encodable coordinate for every 64-bit configuration (there 32-bit input tuples still hold it: input order 4)
                bool wide = strstr(cfgs[c].name, "u64") != nullptr;
                if (!thorough && axis_id > 0 && !(D == 2 && c == 0) && !(wide && axis_id == 2)) continue;
                if (asan && !thorough && axis_id > 0) continue;
                for (int a = 0; a < 3; ++a) for (int b = 0; b < 3; ++b) { Task t{int(c), 0, {a, b}, axis_id, 0, 0, {}}; tasks.push_back(t); }
            }
        else if (!asan) for (int a = 0; a < 3; ++a) for (int b = 0; b < 3; ++b) { Task t{int(c), 0, {1, 1, 1, 1, 1, 1, 1, 1, a, b}, 0, 0, 0, {}}; tasks.push_back(t); }   // 4D: 16 cells, the first 8 fixed to one copy, {0,1,65}^8 on the rest
        // (a') thorough, 2D: multiplicities {0,1,2,65,130} on the 3x3 universe (5^9 multisets), split by the first three digits
        if (thorough && D == 2 && c <= 2 && !asan) for (int a = 0; a < 5; ++a) for (int b = 0; b < 5; ++b) for (int d = 0; d < 5; ++d) { Task t{int(c), 4, {a, b, d}, 0, 0, 0, {}}; tasks.push_back(t); }
        // (b) full grids, every box
        std::vector<long> grids;
        if (D == 2) { grids = {16, 32}; if (thorough && c <= 1 && !asan) grids.push_back(48); }
        else if (D == 3) grids = thorough ? std::vector<long>{4, 8} : std::vector<long>{8};
        else grids = {4};
        if (asan && !thorough) { if (D == 2) grids = {16}; else if (D == 3) grids = {4}; }
        for (long G : grids) for (long lo0 = 0; lo0 < G; ++lo0) { Task t{int(c), 1, {}, 0, G, lo0, {}}; tasks.push_back(t); }
        // (e) chunked construction of the index over the codes: > 2^15 points, 2/8/20 chunks, 7 or 19 far tail points
        if (D <= 3 && (c == 0 || c == 3 || thorough) && (!asan || thorough)) for (long p : {2L, 8L, 20L}) for (long tail : {7L, 19L}) { Task t{int(c), 5, {}, 0, p, tail, {}}; tasks.push_back(t); }
        // (f) wide thin boxes: BIGMIN jumps across every bit of the coordinate type
        { Task t{int(c), 6, {}, 0, 0, 0, {}}; tasks.push_back(t); }
        // (d) miss-run lengths (2D): every run length 1..600, and every split of the critical totals into two runs
        if (D == 2) {
            for (long m = 1; m <= 600; m += 50) { Task t{int(c), 3, {}, 0, m, 0, {}}; tasks.push_back(t); }
            if (!asan || thorough) for (long off = 0; off < 16; ++off) { Task t{int(c), 3, {}, 0, off, 1, {}}; tasks.push_back(t); }
        }
        // (c) grid with an enumerated window (thorough): 16x16 with a 3x3 window of {removed, x1, x2}
        if (thorough && D == 2 && c <= 1 && !asan) {
            for (int w = 0; w < 19683; w += 27) {
                for (int w2 = w; w2 < w + 27; w2 += 9) {
                    std::vector<int> digits; int x = w2; for (int i = 0; i < 9; ++i) { digits.push_back(std::vector<int>{0, 1, 2}[x % 3]); x /= 3; }
                    Task t{int(c), 2, {}, 0, 16, 6, digits}; tasks.push_back(t);   // boxes starting at x0 = 6 (left of the window at 7..9)
                    t.lo0 = 8; tasks.push_back(t);
                }
            }
        }
    }
    run.run_tasks(tasks.size(), [&](uint64_t i) { if (!run.deadline_passed()) cfgs[tasks[i].cfg].run(run, cn, prop, tasks[i]); });

    mc::Run::EvidenceExtra ev;
    ev.states_counter = "point_multisets_indexed"; ev.transitions_counter = prop == 14 ? "contains_queries_checked" : "box_queries_checked";
    ev.nontrivial_counter = "multisets_with_2plus_distinct_points";
    ev.rule = "real miss_threshold=64; boxes are traversed with ++it and (every box of at most 8 points and every third other box) again with it++; points are supplied in enumeration order, lexicographic order and reverse lexicographic order, and (2 dimensions) as a range of std::pair; for contains() two other indexes of the same type are alive and are asked about the same point between the calls. (a) every multiplicity vector in {0,1,65}^cells over 3x3 (2D) / 2x2x2 (3D) cell universes (65 copies of an out-of-box cell force the bigmin skip), several coordinate sets incl. the largest encodable coordinate; "
              "(b) full grids 16x16, 32x32, 8x8x8, 4^4 with every axis-aligned box; (c, thorough) 16x16 grid with every {removed,x1,x2} pattern of a 3x3 window; (e) 33124 / 35937 grid points plus 7 or 19 far points, index built with 2, 8 and 20 chunks (chunked construction); (g) point sets whose sorted Morton codes are the keys of members of the one-dimensional density family (1,200 clusters whose spacing changes every 300; also with EpsilonRecursive 33 / 40, the binary-search routing path): contains() for every stored point and for the absent neighbours of every key, three boxes; (f) wide thin boxes (2^h wide for every h the coordinate type holds, miss runs of 64/65/66/130 that end just below x = 2^h, three placements of the first hit beyond): BIGMIN decisions at every bit of the code word, all dimensions and coordinate types; (d) miss-run family: a run of m consecutive out-of-box points for every m in 1..600 (and, for every fifth m and 60..70, the same constellation translated to the top bits of the code word, and the constellation cut off after the run so that nothing is stored beyond it) and every split (step 16) of the totals {63..66,127..130,191..193,255..258,319..321,511..513} into two runs separated by an in-box hit, also for Epsilon 32 and 64. " +
              std::string(prop == 14 ? "Every cell of the universe and cells just outside it / at the largest encodable coordinate are passed to contains(); oracle: membership in the multiset."
                                     : "Every box over the axis values is enumerated; oracle: brute-force filter sorted by the harness's own Morton code, with multiplicity; iteration must end within n+2 steps.") +
              " State = one indexed multiset; transition = one query; non-trivial = at least two distinct points.";
    ev.bounds = std::to_string(tasks.size()) + " tasks over the configurations (Dimensions, coordinate type, Epsilon) in {(2,u32,1),(2,u32,4),(2,u64,16),(3,u32,1),(3,u64,4),(4,u64,1)" + (thorough ? ",(2,u32,16),(2,u64,1),(2,u32,64)" : "") + "}";
    ev.assumptions = {"harness Morton code self-checked against mortonnd::MortonNDBmi at start-up", "coordinates fit the encoder (< 2^(digits/Dimensions - 1))"};
    return run.finish(ev);
}
