// Objects and read-only queries explored by the concurrency engine (C16).
#pragma once
#include <cstdint>
#include <unistd.h>
void zoo_build(const char *dir);
void zoo_destroy();
int zoo_classes();
const char *zoo_class_name(int c);
int zoo_queries(int c);
const char *zoo_query_name(int c, int q);
uint64_t zoo_run(int c, int q);   // digest of the query's complete result
