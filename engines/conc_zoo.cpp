// The objects and read-only queries of the concurrency engine (C16). This translation unit is compiled by clang with
// -fsanitize=thread so that every memory access of the library inside a query reaches the runtime in mc/vrt.cpp (or, for the
// free-running cross-check, the real ThreadSanitizer runtime).
#include "conc_zoo.hpp"
#include "pgm/pgm_index.hpp"
#include "pgm/pgm_index_variants.hpp"
#include "pgm/pgm_index_dynamic.hpp"
#include <string>
#include <tuple>

namespace {
using U = uint64_t;
struct Fnv { uint64_t h = 1469598103934665603ull; void add(uint64_t v) { for (int i = 0; i < 8; ++i) { h ^= (v >> (8 * i)) & 0xff; h *= 1099511628211ull; } } };

std::vector<U> keys;   // see zoo_build
pgm::PGMIndex<U, 4, 2> *pgm_idx;
pgm::CompressedPGMIndex<U, 4, 2> *comp_idx;
pgm::BucketingPGMIndex<U, 4, 16, 32> *buck_idx;
pgm::BucketingPGMIndex<U, 4, 100, 0> *buck2_idx;
pgm::PGMIndex<U, 2, 40> *pgm_bin_idx;               // EpsilonRecursive above the linear-scan threshold: binary-search routing
pgm::CompressedPGMIndex<U, 2, 128> *comp_bin_idx;
pgm::EliasFanoPGMIndex<U, 4> *ef_idx;
pgm::MappedPGMIndex<U, 4, 2> *map_idx;
using MD = pgm::MultidimensionalPGMIndex<2, uint32_t, 4>;
MD *md_idx;
using Dyn = pgm::DynamicPGMIndex<uint32_t, uint32_t, pgm::PGMIndex<uint32_t, 1, 1>>;
Dyn *dyn_idx;
std::string map_file;

U probe(int q) {   // 8 probes: present keys, absent keys in gaps, below the first key, above the last key, far away
    switch (q) {
        case 0: return keys[10]; case 1: return keys[1500] + 1; case 2: return keys.back(); case 3: return 0;
        case 4: return keys.back() + 12345; case 5: return keys[6000]; case 6: return (U(1) << 63) + 5; default: return keys[18550] + 1;   // 5: inside the dense zig-zag cluster, 7: inside the linear stretches
    }
}
template<typename I> uint64_t search_digest(const I &ix, int q) { auto r = ix.search(probe(q)); Fnv f; f.add(r.pos); f.add(r.lo); f.add(r.hi); return f.h; }
}

void zoo_build(const char *dir) {
    U x = 1000;
    // 30 sparse keys (some empty Elias-Fano buckets before everything else, so that the dense part below starts inside a select block)
    for (int i = 0; i < 30; ++i) { keys.push_back(x); x += (U(1) << 33) + U(i) * 1237; }
    for (int i = 0; i < 3000; ++i) { x += (i % 11 == 0 || (i > 500 && i <= 540)) ? 0 : 1 + (U(i) * 2654435761u % 53) * (i % 17 == 0 ? 4000 : 1); keys.push_back(x); }   // short duplicate runs, and one run of 41 equal keys (longer than any search window)
    // a dense zig-zag cluster of 9000 keys: hundreds of short segments inside one Elias-Fano bucket (long word scans in select_0)
    x += 1000;
    for (int i = 0; i < 9000; ++i) { x += ((i / 10) % 2) ? 20 + (U(i) * 2654435761u % 5) : 1; keys.push_back(x); }
    // linear stretches of 900 keys between irregular ones: segments covering hundreds of positions (long word scans in select_1 of the compressed intercepts)
    for (int s = 0; s < 12; ++s) { for (int i = 0; i < 900; ++i) keys.push_back(++x); for (int i = 0; i < 30; ++i) { x += 5 + (U(i) * 2654435761u % 91); keys.push_back(x); } }
    for (int i = 0; i < 40; ++i) { x += (U(1) << 40) + U(i) * 977; keys.push_back(x); }   // far keys: long runs of empty buckets
    pgm_idx = new pgm::PGMIndex<U, 4, 2>(keys.begin(), keys.end());
    comp_idx = new pgm::CompressedPGMIndex<U, 4, 2>(keys.begin(), keys.end());
    buck_idx = new pgm::BucketingPGMIndex<U, 4, 16, 32>(keys.begin(), keys.end());
    buck2_idx = new pgm::BucketingPGMIndex<U, 4, 100, 0>(keys.begin(), keys.end());
    ef_idx = new pgm::EliasFanoPGMIndex<U, 4>(keys.begin(), keys.end());
    pgm_bin_idx = new pgm::PGMIndex<U, 2, 40>(keys.begin(), keys.end());
    comp_bin_idx = new pgm::CompressedPGMIndex<U, 2, 128>(keys.begin(), keys.end());
    map_file = std::string(dir) + "/conc_mapped.bin";
    map_idx = new pgm::MappedPGMIndex<U, 4, 2>(keys.begin(), keys.end(), map_file);
    std::vector<std::tuple<uint32_t, uint32_t>> pts;
    for (uint32_t a = 0; a < 20; ++a) for (uint32_t b = 0; b < 20; ++b) for (int c = 0; c < ((a == 3 && b == 9) ? 70 : 1); ++c) pts.emplace_back(a * 2, b * 3);
    md_idx = new MD(pts.begin(), pts.end());
    std::vector<std::pair<uint32_t, uint32_t>> init;
    for (uint32_t i = 0; i < 40; ++i) init.emplace_back(10 + 3 * i, i + 1);
    dyn_idx = new Dyn(init.begin(), init.end(), uint8_t(2), uint8_t(1), uint8_t(2));
    for (uint32_t i = 0; i < 23; ++i) dyn_idx->insert_or_assign(11 + 5 * i, 1000 + i);
    for (uint32_t i = 0; i < 9; ++i) dyn_idx->erase(10 + 6 * i);
}
void zoo_destroy() { delete pgm_idx; delete comp_idx; delete buck_idx; delete buck2_idx; delete pgm_bin_idx; delete comp_bin_idx; delete ef_idx; delete map_idx; delete md_idx; delete dyn_idx; unlink(map_file.c_str()); }

int zoo_classes() { return 10; }
const char *zoo_class_name(int c) { static const char *n[] = {"PGMIndex<u64,4,2>", "CompressedPGMIndex<u64,4,2>", "BucketingPGMIndex<u64,4,16,32>", "EliasFanoPGMIndex<u64,4>", "MappedPGMIndex<u64,4,2>", "MultidimensionalPGMIndex<2,u32,4>", "DynamicPGMIndex<u32,u32>(2,1,2)", "BucketingPGMIndex<u64,4,100,0>", "PGMIndex<u64,2,40>", "CompressedPGMIndex<u64,2,128>"}; return n[c]; }
int zoo_queries(int) { return 8; }
const char *zoo_query_name(int c, int q) {
    static const char *s[] = {"search(present)", "search(gap)", "search(last)", "search(0)", "search(above last)", "search(in dense cluster)", "search(far)", "search(gap in linear stretch)"};
    static const char *m[] = {"lower_bound(present)", "upper_bound(gap)", "count(long dup run)", "contains(0)", "lower_bound(above last)", "upper_bound(long dup run)", "contains(far)", "count(absent)"};
    static const char *d[] = {"contains(stored)", "contains(absent)", "range(small box)", "range(slab with 70 misses)", "range(full)", "range(empty box)", "contains(beyond)", "range(corner)"};
    static const char *y[] = {"find(live)", "find(erased)", "count+size+empty", "lower_bound(gap)", "lower_bound(below)", "range(20,90)", "full iteration", "begin+3"};
    return (c <= 3 || c >= 7) ? s[q] : c == 4 ? m[q] : c == 5 ? d[q] : y[q];
}

uint64_t zoo_run(int c, int q) {
    switch (c) {
        case 0: return search_digest(*pgm_idx, q);
        case 1: return search_digest(*comp_idx, q);
        case 2: return search_digest(*buck_idx, q);
        case 3: return search_digest(*ef_idx, q);
        case 7: return search_digest(*buck2_idx, q);
        case 8: return search_digest(*pgm_bin_idx, q);
        case 9: return search_digest(*comp_bin_idx, q);
        case 4: {
            Fnv f; U k = probe(q);
            switch (q) {
                case 0: case 4: f.add(map_idx->lower_bound(k) - map_idx->begin()); break;
                case 1: case 5: f.add(map_idx->upper_bound(q == 5 ? keys[550] : k) - map_idx->begin()); break;   // q5: inside the long run
                case 2: case 7: f.add(map_idx->count(q == 2 ? keys[550] : k)); break;
                default: f.add(map_idx->contains(k)); break;
            }
            return f.h;
        }
        case 5: {
            Fnv f;
            auto box = [&](uint32_t a, uint32_t b, uint32_t cc, uint32_t dd) { size_t n = 0; for (auto it = md_idx->range({a, b}, {cc, dd}); it != md_idx->end() && n < 100000; ++it, ++n) { f.add(std::get<0>(*it)); f.add(std::get<1>(*it)); } f.add(n); };
            switch (q) {
                case 0: f.add(md_idx->contains({6, 27})); break; case 1: f.add(md_idx->contains({7, 27})); break; case 2: box(2, 3, 8, 9); break; case 3: box(0, 28, 38, 30); break;
                case 4: box(0, 0, 38, 57); break; case 5: box(1, 1, 1, 2); break; case 6: box(38, 57, 100, 100); break; default: f.add(md_idx->contains({1000, 1000})); break;
            }
            return f.h;
        }
        default: {
            Fnv f; auto e = dyn_idx->end();
            auto put = [&](const Dyn::iterator &it) { if (it == e) f.add(~0ull); else { f.add(it->first); f.add(it->second); } };
            switch (q) {
                case 0: put(dyn_idx->find(13)); break; case 1: put(dyn_idx->find(16)); break; case 2: f.add(dyn_idx->count(21)); f.add(dyn_idx->count(22)); f.add(dyn_idx->size()); f.add(dyn_idx->empty()); break;
                case 3: put(dyn_idx->lower_bound(17)); break; case 4: put(dyn_idx->lower_bound(0)); break;
                case 5: for (auto &p : dyn_idx->range(20, 90)) { f.add(p.first); f.add(p.second); } break;
                case 6: { size_t n = 0; for (auto it = dyn_idx->begin(); it != e && n < 10000; ++it, ++n) { f.add(it->first); f.add(it->second); } f.add(n); break; }
                default: { auto it = dyn_idx->begin(); for (int i = 0; i < 3 && it != e; ++i, ++it) { f.add(it->first); f.add(it->second); } break; }
            }
            return f.h;
        }
    }
}
